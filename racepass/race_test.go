// Package racepass is NOT one of the checks. It runs a few of the scenario shapes of the E1 checks
// free-running (real goroutines, real sync, real time) under the Go race detector, because the
// cooperative scheduler of the checks turns every hand-off into a happens-before edge and therefore
// cannot see unsynchronised accesses. What it reports is listed in the evidence of the E1 checks as
// a weakened assumption ("sequentially consistent, race-free accesses"), never as a violation.
package racepass

import (
	"bytes"
	"fmt"
	"io"
	"net/http"
	"net/http/httptest"
	"strings"
	"sync"
	"testing"
	"time"

	"github.com/gorilla/websocket"
	"github.com/zishang520/engine.io/v2/config"
	"github.com/zishang520/engine.io/v2/engine"
	"github.com/zishang520/engine.io/v2/transports"
	"github.com/zishang520/engine.io/v2/types"
)

func newServer() (engine.Server, *httptest.Server) {
	o := config.DefaultServerOptions()
	o.SetPingInterval(200 * time.Millisecond)
	o.SetPingTimeout(200 * time.Millisecond)
	o.SetAllowEIO3(true)
	srv := engine.NewServer(o)
	ts := httptest.NewServer(srv)
	return srv, ts
}

func handshake(t *testing.T, ts *httptest.Server) string {
	resp, err := http.Get(ts.URL + "/engine.io/?EIO=4&transport=polling")
	if err != nil {
		t.Fatal(err)
	}
	b, _ := io.ReadAll(resp.Body)
	resp.Body.Close()
	s := string(b)
	i := strings.Index(s, `"sid":"`)
	if i < 0 {
		t.Fatalf("no sid in %q", s)
	}
	s = s[i+7:]
	return s[:strings.IndexByte(s, '"')]
}

func poll(ts *httptest.Server, sid string) string {
	resp, err := http.Get(ts.URL + "/engine.io/?EIO=4&transport=polling&sid=" + sid)
	if err != nil {
		return ""
	}
	b, _ := io.ReadAll(resp.Body)
	resp.Body.Close()
	return string(b)
}

func post(ts *httptest.Server, sid, body string) {
	resp, err := http.Post(ts.URL+"/engine.io/?EIO=4&transport=polling&sid="+sid, "text/plain;charset=UTF-8", bytes.NewReader([]byte(body)))
	if err == nil {
		io.Copy(io.Discard, resp.Body)
		resp.Body.Close()
	}
}

func TestPollingSendersPollerCloser(t *testing.T) {
	for round := 0; round < 80; round++ {
		srv, ts := newServer()
		var sock engine.Socket
		ready := make(chan struct{})
		srv.On("connection", func(a ...any) {
			sock = a[0].(engine.Socket)
			sock.On("message", func(...any) {})
			close(ready)
		})
		sid := handshake(t, ts)
		<-ready
		var wg sync.WaitGroup
		for s := 0; s < 2; s++ {
			wg.Add(1)
			go func(s int) {
				defer wg.Done()
				for i := 0; i < 10; i++ {
					sock.Send(types.NewStringBufferString(fmt.Sprintf("m%d-%d", s, i)), nil, nil)
				}
			}(s)
		}
		wg.Add(2)
		go func() {
			defer wg.Done()
			for i := 0; i < 6; i++ {
				if r := poll(ts, sid); strings.Contains(r, `"code"`) {
					return
				}
				post(ts, sid, "3")
			}
		}()
		go func() {
			defer wg.Done()
			post(ts, sid, "4hello\x1e4world")
			time.Sleep(time.Duration(round%5) * time.Millisecond)
			sock.Close(round%2 == 0)
		}()
		wg.Wait()
		srv.Close()
		ts.Close()
	}
}

func dialWS(t *testing.T, ts *httptest.Server, sid string) *websocket.Conn {
	u := "ws" + strings.TrimPrefix(ts.URL, "http") + "/engine.io/?EIO=4&transport=websocket"
	if sid != "" {
		u += "&sid=" + sid
	}
	c, _, err := websocket.DefaultDialer.Dial(u, nil)
	if err != nil {
		t.Fatal(err)
	}
	return c
}

func TestWebSocketSendersReaderCloser(t *testing.T) {
	for round := 0; round < 80; round++ {
		srv, ts := newServer()
		var sock engine.Socket
		ready := make(chan struct{})
		srv.On("connection", func(a ...any) {
			sock = a[0].(engine.Socket)
			sock.On("message", func(...any) {})
			close(ready)
		})
		c := dialWS(t, ts, "")
		<-ready
		var wg sync.WaitGroup
		wg.Add(3)
		go func() {
			defer wg.Done()
			for {
				_, msg, err := c.ReadMessage()
				if err != nil {
					return
				}
				if string(msg) == "2" {
					c.WriteMessage(websocket.TextMessage, []byte("3"))
				}
			}
		}()
		go func() {
			defer wg.Done()
			for i := 0; i < 20; i++ {
				sock.Send(types.NewStringBufferString("x"), nil, func(transports.Transport) {})
			}
		}()
		go func() {
			defer wg.Done()
			time.Sleep(time.Duration(round%7) * time.Millisecond)
			if round%3 == 0 {
				srv.Close()
			} else {
				sock.Close(round%2 == 0)
			}
		}()
		wg.Wait()
		c.Close()
		srv.Close()
		ts.Close()
	}
}

func TestUpgradeUnderTraffic(t *testing.T) {
	for round := 0; round < 80; round++ {
		srv, ts := newServer()
		var sock engine.Socket
		ready := make(chan struct{})
		srv.On("connection", func(a ...any) {
			sock = a[0].(engine.Socket)
			sock.On("message", func(...any) {})
			close(ready)
		})
		sid := handshake(t, ts)
		<-ready
		var wg sync.WaitGroup
		wg.Add(3)
		go func() {
			defer wg.Done()
			for i := 0; i < 15; i++ {
				sock.Send(types.NewStringBufferString("y"), nil, nil)
				time.Sleep(time.Millisecond)
			}
		}()
		stopPoll := make(chan struct{})
		go func() {
			defer wg.Done()
			for {
				select {
				case <-stopPoll:
					return
				default:
				}
				if r := poll(ts, sid); strings.Contains(r, `"code"`) {
					return
				}
			}
		}()
		go func() {
			defer wg.Done()
			c := dialWS(t, ts, sid)
			time.Sleep(5 * time.Millisecond)
			c.WriteMessage(websocket.TextMessage, []byte("2probe"))
			c.SetReadDeadline(time.Now().Add(500 * time.Millisecond))
			c.ReadMessage()
			close(stopPoll)
			time.Sleep(120 * time.Millisecond)
			c.WriteMessage(websocket.TextMessage, []byte("5"))
			c.WriteMessage(websocket.TextMessage, []byte("4after"))
			time.Sleep(20 * time.Millisecond)
			if round%2 == 0 {
				sock.Close(false)
			}
			c.Close()
		}()
		wg.Wait()
		srv.Close()
		ts.Close()
	}
}
