module verifracepass

go 1.26

require (
	github.com/gorilla/websocket v1.5.3
	github.com/zishang520/engine.io/v2 v2.0.0
)

require (
	github.com/andybalholm/brotli v1.1.1 // indirect
	github.com/gookit/color v1.5.4 // indirect
	github.com/klauspost/compress v1.18.0 // indirect
	github.com/quic-go/qpack v0.5.1 // indirect
	github.com/quic-go/quic-go v0.50.1 // indirect
	github.com/vmihailenco/msgpack/v5 v5.4.1 // indirect
	github.com/vmihailenco/tagparser/v2 v2.0.0 // indirect
	github.com/xo/terminfo v0.0.0-20210125001918-ca9a967f8778 // indirect
	github.com/zishang520/engine.io-go-parser v1.3.2 // indirect
	github.com/zishang520/webtransport-go v0.8.6 // indirect
	golang.org/x/crypto v0.35.0 // indirect
	golang.org/x/exp v0.0.0-20240506185415-9bf2ced13842 // indirect
	golang.org/x/net v0.36.0 // indirect
	golang.org/x/sys v0.30.0 // indirect
	golang.org/x/text v0.22.0 // indirect
)

replace github.com/zishang520/engine.io/v2 => /repo
