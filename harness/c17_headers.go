package harness

import (
	"fmt"
	"net/http"
	"regexp"
	"strings"

	"github.com/zishang520/engine.io/v2/config"
	"github.com/zishang520/engine.io/v2/types"
	"github.com/zishang520/engine.io/v2/utils"
	"verifrt/vsched"
)

// C17 — handshake cookie, initial_headers / headers events, CORS policy.

type cookieCfg struct {
	name string // "" = no cookie configured
	c    *http.Cookie
}

func cookieCfgs() []cookieCfg {
	return []cookieCfg{
		{"none", nil},
		{"default", &http.Cookie{}},
		{"named", &http.Cookie{Name: "io", Path: "/"}},
		{"custom", &http.Cookie{Name: "sess", Path: "/app", MaxAge: 3600, SameSite: http.SameSiteStrictMode, Secure: true}},
	}
}

// a history is a word over: H handshake of a new polling session, Pn poll of session n
// (after an application Send so that it is answered), Dn data request of session n, Cn data
// request carrying a close packet, W handshake of a websocket session.
func cookieHistories(maxLen int) [][]string {
	var out [][]string
	var rec func(cur []string, sessions int)
	rec = func(cur []string, sessions int) {
		if len(cur) > 0 {
			out = append(out, append([]string(nil), cur...))
		}
		if len(cur) == maxLen {
			return
		}
		if sessions < 2 {
			rec(append(cur, "H"), sessions+1)
		}
		for s := 1; s <= sessions; s++ {
			for _, op := range []string{"P", "D", "C"} {
				rec(append(cur, fmt.Sprintf("%s%d", op, s)), sessions)
			}
		}
	}
	rec([]string{"H"}, 1)
	return out
}

func cookieBody(cc cookieCfg, hist []string, eio int, jsonp bool) vsched.Body {
	return func(x *vsched.Exec) {
		o := config.DefaultServerOptions()
		o.SetAllowEIO3(true)
		if cc.c != nil {
			cp := *cc.c
			o.SetCookie(&cp)
		}
		w := NewWorld(x, o)
		type hev struct {
			name string
			req  *http.Request
		}
		var evs []hev
		for _, name := range []string{"initial_headers", "headers"} {
			name := name
			w.Srv.On(types.EventName(name), func(a ...any) {
				e := hev{name: name}
				if len(a) > 1 {
					if c, ok := a[1].(*types.HttpContext); ok {
						e.req = c.Request()
					}
				}
				if len(a) > 0 {
					if _, ok := a[0].(*utils.ParameterBag); !ok {
						x.Fail("headers-event-args[%s]: first argument is %T", name, a[0])
					}
				}
				evs = append(evs, e)
			})
		}
		var clients []*PollClient
		closed := map[int]bool{}
		type rr struct {
			op   string
			sess int
			r    *Resp
		}
		var resps []rr
		id := fmt.Sprintf("cookie=%s eio=%d jsonp=%v history=%v", cc.name, eio, jsonp, hist)
		for _, op := range hist {
			switch op[0] {
			case 'H':
				// "H": one handshake; "HH": two handshake requests submitted together (their handlers
				// and send goroutines interleave under the explorer)
				var pcs []*PollClient
				var rs []*Resp
				for range op {
					pc := &PollClient{W: w, EIO: eio}
					if jsonp {
						pc.JSONP = "1"
					}
					pcs = append(pcs, pc)
					rs = append(rs, pc.Get())
				}
				x.Settle()
				for i, pc := range pcs {
					pk, err := pc.DecodeResp(rs[i])
					if err != nil || len(pk) == 0 {
						x.Fail("setup: handshake failed (%s)", id)
						return
					}
					open, _ := ParseOpen(pk[0])
					pc.Sid, _ = open["sid"].(string)
					clients = append(clients, pc)
					resps = append(resps, rr{"H", len(clients), rs[i]})
				}
			default:
				n := int(op[1] - '1')
				if closed[n] {
					continue
				}
				pc := clients[n]
				var r *Resp
				switch op[0] {
				case 'P':
					rec := w.ByID[pc.Sid]
					vsched.GoNamed("app-send", func() { rec.Sock.Send(types.NewStringBufferString("m"), nil, nil) })
					x.Settle()
					r = pc.Get()
				case 'D':
					r = pc.Post([]Pkt{Msg("c")})
				case 'C':
					r = pc.Post([]Pkt{Msg("c"), {Type: '1'}})
					closed[n] = true
				}
				x.Settle()
				resps = append(resps, rr{op[:1], n + 1, r})
			}
		}
		for _, t := range x.Panics() {
			x.Fail("panic[headers]: %v (%s)", t.Panic, id)
		}
		// oracle
		for i, e := range resps {
			r := e.r
			what := fmt.Sprintf("response #%d (%s of session %d) of %s", i, e.op, e.sess, id)
			if !r.wrote {
				x.Fail("no-response[%s]: request not answered (%s)", e.op, what)
				continue
			}
			sid := clients[e.sess-1].Sid
			cookies := r.Hdr.Values("Set-Cookie")
			wantCookie := cc.c != nil && e.op == "H"
			cls := fmt.Sprintf("[cookie=%s on=%s]", cc.name, map[bool]string{true: "handshake", false: "later-response"}[e.op == "H"])
			switch {
			case wantCookie && len(cookies) != 1:
				x.Fail("cookie-missing%s: %d Set-Cookie headers on the handshake response (%s)", cls, len(cookies), what)
			case !wantCookie && len(cookies) != 0:
				x.Fail("cookie-unexpected%s: Set-Cookie %q (%s)", cls, cookies, what)
			case wantCookie:
				pr := (&http.Response{Header: http.Header{"Set-Cookie": cookies}}).Cookies()
				if len(pr) != 1 {
					x.Fail("cookie-unparsable%s: %q (%s)", cls, cookies[0], what)
					break
				}
				got := pr[0]
				wantName, wantPath := cc.c.Name, cc.c.Path
				if wantName == "" {
					wantName = "io"
				}
				if wantPath == "" {
					wantPath = "/"
				}
				if got.Value != sid {
					// (ids are random: the message names sessions by their index so that a replay reproduces it)
					whose := "no session of this run"
					for ci, cl := range clients {
						if cl.Sid == got.Value {
							whose = fmt.Sprintf("the id of session %d", ci+1)
						}
					}
					if got.Value == "" {
						whose = "empty"
					}
					x.Fail("cookie-value%s: the cookie value is %s, the response belongs to session %d (%s)", cls, whose, e.sess, what)
				}
				if got.Name != wantName || got.Path != wantPath {
					x.Fail("cookie-attributes%s: name/path %q %q, configured %q %q (%s)", cls, got.Name, got.Path, wantName, wantPath, what)
				}
				if cc.c.MaxAge != 0 && got.MaxAge != cc.c.MaxAge {
					x.Fail("cookie-attributes%s: Max-Age %d, configured %d (%s)", cls, got.MaxAge, cc.c.MaxAge, what)
				}
				if cc.c.Secure && !got.Secure {
					x.Fail("cookie-attributes%s: Secure lost (%s)", cls, what)
				}
				if cc.c.SameSite != http.SameSiteDefaultMode && got.SameSite != cc.c.SameSite {
					x.Fail("cookie-attributes%s: SameSite %v, configured %v (%s)", cls, got.SameSite, cc.c.SameSite, what)
				}
			}
			// events for this response
			ni, nh := 0, 0
			for _, ev := range evs {
				if ev.req == r.Req {
					if ev.name == "initial_headers" {
						ni++
					} else {
						nh++
					}
				}
			}
			wantInit := 0
			if e.op == "H" {
				wantInit = 1
			}
			if ni != wantInit {
				x.Fail("initial-headers-count[on=%s]: initial_headers fired %d times for this response, expected %d (%s)", map[bool]string{true: "handshake", false: "later-response"}[e.op == "H"], ni, wantInit, what)
			}
			if nh != 1 {
				x.Fail("headers-count[%s]: headers fired %d times for this response (%s)", e.op, nh, what)
			}
		}
		x.Outcome = fmt.Sprintf("%d responses", len(resps))
	}
}

// ---- CORS ----

type corsCfg struct {
	originName string
	origin     any
	cred       bool
	methods    any
	headers    any
	cont       bool
	status     int
}

func (c corsCfg) String() string {
	return fmt.Sprintf("origin=%s credentials=%v methods=%T headers=%T preflightContinue=%v status=%d", c.originName, c.cred, c.methods, c.headers, c.cont, c.status)
}

const goodOrigin, otherOrigin = "http://a.example", "http://evil.example"

// corsAllows: the reference policy — may the response name this request origin?
func corsAllows(origin any, req string) bool {
	switch v := origin.(type) {
	case nil:
		return false // "*" mode never names an origin
	case string:
		return v == req
	case []any:
		for _, e := range v {
			if corsAllows(e, req) {
				return true
			}
		}
		return false
	case *regexp.Regexp:
		return v.MatchString(req)
	case bool:
		return v
	}
	return false
}

func corsBody(cc corsCfg, reqOrigin, method string) vsched.Body {
	return func(x *vsched.Exec) {
		o := config.DefaultServerOptions()
		o.SetCors(&types.Cors{Origin: cc.origin, Credentials: cc.cred, Methods: cc.methods, AllowedHeaders: cc.headers, PreflightContinue: cc.cont, OptionsSuccessStatus: cc.status})
		w := NewWorld(x, o)
		id := fmt.Sprintf("%s | Origin=%q %s", cc, reqOrigin, method)
		hdr := map[string]string{}
		if reqOrigin != "" {
			hdr["Origin"] = reqOrigin
		}
		pc := &PollClient{W: w, EIO: 4, Hdr: hdr}
		var r *Resp
		switch method {
		case "GET-preset-vary":
			// an outer handler has already set Vary: Accept-Encoding on the response
			r = w.Request("GET", pc.url(false), ReqOpt{Hdr: hdr, RespHdr: map[string]string{"Vary": "Accept-Encoding"}})
		case "GET":
			r = pc.Get()
		case "POST", "POLL":
			h := pc.Get()
			x.Settle()
			pk, err := pc.DecodeResp(h)
			if err != nil || len(pk) == 0 {
				x.Fail("setup: handshake failed: %v (%s)", err, id)
				return
			}
			open, _ := ParseOpen(pk[0])
			pc.Sid, _ = open["sid"].(string)
			if method == "POST" {
				r = pc.Post([]Pkt{Msg("x")})
			} else {
				rec := w.Socks[0]
				vsched.GoNamed("app-send", func() { rec.Sock.Send(types.NewStringBufferString(strings.Repeat("y", 1500)), nil, nil) })
				x.Settle()
				pc.Hdr["Accept-Encoding"] = "gzip"
				r = pc.Get()
			}
		case "OPTIONS":
			hh := map[string]string{"Access-Control-Request-Method": "POST", "Access-Control-Request-Headers": "content-type"}
			for k, v := range hdr {
				hh[k] = v
			}
			r = w.Request("OPTIONS", "/engine.io/?EIO=4&transport=polling", ReqOpt{Hdr: hh})
		}
		socksBefore := len(w.Socks)
		if method == "GET" || method == "OPTIONS" || method == "GET-preset-vary" {
			socksBefore = 0
		}
		x.Settle()
		for _, t := range x.Panics() {
			x.Fail("panic[cors]: %v (%s)", t.Panic, id)
		}
		if !r.wrote {
			x.Fail("cors-no-response[%s]: request not answered (%s)", method, id)
			return
		}
		acao := r.Hdr.Get("Access-Control-Allow-Origin")
		star := cc.origin == nil
		if s, ok := cc.origin.(string); ok && s == "*" {
			star = true
		}
		cls := fmt.Sprintf("[origin-option=%s request-origin=%s %s]", cc.originName, map[string]string{"": "absent", goodOrigin: "allowed", otherOrigin: "other"}[reqOrigin], method)
		if method == "OPTIONS" && cc.headers == nil {
			// the allowed headers are reflected from the request: the response depends on that header too
			varyACRH := false
			for _, v := range r.Hdr.Values("Vary") {
				if strings.Contains(v, "Access-Control-Request-Headers") {
					varyACRH = true
				}
			}
			if !varyACRH && !cc.cont {
				x.Fail("cors-vary-request-headers%s: Access-Control-Allow-Headers reflects the request but Vary is %q (%s)", cls, r.Hdr.Values("Vary"), id)
			}
		}
		if acao == "*" && !star {
			x.Fail("cors-wildcard%s: Access-Control-Allow-Origin: * with a restrictive policy (%s)", cls, id)
		}
		if reqOrigin != "" && acao == reqOrigin && !star && !corsAllows(cc.origin, reqOrigin) {
			x.Fail("cors-origin-leak%s: response names the origin %q which the policy does not allow (%s)", cls, reqOrigin, id)
		}
		if reqOrigin != "" && !star && corsAllows(cc.origin, reqOrigin) && acao != reqOrigin {
			x.Fail("cors-origin-missing%s: policy allows %q but Access-Control-Allow-Origin is %q (%s)", cls, reqOrigin, acao, id)
		}
		if star && acao != "*" {
			x.Fail("cors-origin-missing%s: policy is '*' but Access-Control-Allow-Origin is %q (%s)", cls, acao, id)
		}
		// Vary: Origin whenever the value depends on the request
		reflect := false
		switch cc.origin.(type) {
		case []any, *regexp.Regexp, bool:
			reflect = true
		}
		if reflect {
			vary := false
			for _, v := range r.Hdr.Values("Vary") {
				for _, tok := range strings.Split(v, ",") {
					if strings.EqualFold(strings.TrimSpace(tok), "Origin") {
						vary = true
					}
				}
			}
			if method == "GET-preset-vary" {
				kept := false
				for _, v := range r.Hdr.Values("Vary") {
					if strings.Contains(v, "Accept-Encoding") {
						kept = true
					}
				}
				if !kept {
					x.Fail("cors-vary-lost%s: the Vary field set by an outer handler was dropped: %q (%s)", cls, r.Hdr.Values("Vary"), id)
				}
			}
			if !vary {
				x.Fail("cors-vary%s: Access-Control-Allow-Origin depends on the request but Vary is %q (%s)", cls, r.Hdr.Values("Vary"), id)
			}
		}
		if got := r.Hdr.Get("Access-Control-Allow-Credentials"); (got == "true") != cc.cred || (got != "" && got != "true") {
			x.Fail("cors-credentials%s: Access-Control-Allow-Credentials %q, configured %v (%s)", cls, got, cc.cred, id)
		}
		if method == "OPTIONS" {
			if !cc.cont {
				want := cc.status
				if want == 0 {
					want = 204
				}
				if r.Code != want {
					x.Fail("cors-preflight-status%s: preflight answered %d, configured %d (%s)", cls, r.Code, want, id)
				}
				if len(r.Body) != 0 {
					x.Fail("cors-preflight-body%s: preflight has a body %s (%s)", cls, bodyPreview(r.Body), id)
				}
				wantM := "GET,HEAD,PUT,PATCH,POST,DELETE"
				switch m := cc.methods.(type) {
				case string:
					wantM = m
				case []string:
					wantM = strings.Join(m, ",")
				}
				if got := r.Hdr.Get("Access-Control-Allow-Methods"); got != wantM {
					x.Fail("cors-preflight-methods%s: Access-Control-Allow-Methods %q, configured %q (%s)", cls, got, wantM, id)
				}
				wantH := "content-type" // reflected when not configured
				switch h := cc.headers.(type) {
				case string:
					wantH = h
				case []string:
					wantH = strings.Join(h, ",")
				}
				if got := r.Hdr.Get("Access-Control-Allow-Headers"); got != wantH {
					x.Fail("cors-preflight-headers%s: Access-Control-Allow-Headers %q, expected %q (%s)", cls, got, wantH, id)
				}
			}
			if len(w.Socks) != 0 || w.Srv.ClientsCount() != 0 {
				x.Fail("cors-preflight-session%s: a preflight request created a session (%s)", cls, id)
			}
			if !r.Returned {
				x.Fail("cors-preflight-blocked%s: handler did not return (%s)", cls, id)
			}
		} else if len(w.Socks) != socksBefore+b2i(method == "GET" || method == "GET-preset-vary") {
			x.Fail("cors-sessions%s: %d sessions (%s)", cls, len(w.Socks), id)
		}
		x.Outcome = fmt.Sprintf("%d acao=%q", r.Code, acao)
	}
}

func init() {
	register("C17", "cookie-histories", false, func(c *Ctx) {
		n := 0
		for _, cc := range cookieCfgs() {
			for _, h := range cookieHistories(Pick(c, 4, 5)) {
				for _, eio := range []int{4, 3} {
					for _, jsonp := range []bool{false, true} {
						if (eio == 3 || jsonp) && !c.Thorough() && len(h) > 3 {
							continue
						}
						n++
						id := fmt.Sprintf("cookie=%s eio=%d jsonp=%v history=%v", cc.name, eio, jsonp, h)
						c.Once(id, cookieBody(cc, h, eio, jsonp))
						if n%211 == 1 {
							c.Sample(id)
						}
					}
				}
			}
		}
		c.Res.Distinct = int64(n)
		c.Note("cookie {none, default, named, custom attributes} x all request histories of length <=4 (thorough 5) over {handshake, poll, data request, data request with close packet} for up to 2 polling sessions x revision x JSONP; per response: Set-Cookie only on the session's handshake response with value = its id and the configured attributes, initial_headers once per session on that response, headers once per response (events attributed to responses by request identity)")
	})
	register("C17", "cors", false, func(c *Ctx) {
		re := regexp.MustCompile(`^http://a\.example$`)
		origins := []struct {
			name string
			v    any
		}{
			{"unset", nil}, {"star", "*"}, {"fixed", goodOrigin}, {"list", []any{"http://b.example", goodOrigin}}, {"list-regexp", []any{re}}, {"regexp", re}, {"true", true}, {"false", false},
		}
		n := 0
		for _, og := range origins {
			for _, cred := range []bool{false, true} {
				for mi, methods := range []any{nil, "GET,POST", []string{"GET", "POST", "OPTIONS"}} {
					for hi, headers := range []any{nil, "x-custom", []string{"x-a", "x-b"}} {
						for _, cont := range []bool{false, true} {
							for _, status := range []int{0, 200} {
								if !c.Thorough() && (mi+hi) > 2 {
									continue
								}
								cc := corsCfg{og.name, og.v, cred, methods, headers, cont, status}
								for _, ro := range []string{"", goodOrigin, otherOrigin} {
									for _, m := range []string{"GET", "GET-preset-vary", "POST", "POLL", "OPTIONS"} {
										if m != "OPTIONS" && (mi+hi > 0 || status != 0) {
											continue // preflight-only options
										}
										n++
										id := fmt.Sprintf("cors %s | Origin=%q %s", cc, ro, m)
										c.Once(id, corsBody(cc, ro, m))
										if n%173 == 1 {
											c.Sample(id)
										}
									}
								}
							}
						}
					}
				}
			}
		}
		c.Res.Distinct = int64(n)
		c.Note("CORS option shapes (origin unset/'*'/fixed/list/list with regexp/regexp/true/false; credentials; methods and allowed headers as nil/string/list; preflightContinue; success status) x request origin {absent, allowed, other} x {handshake GET, data POST, compressed poll, preflight OPTIONS}; reference policy decides whether the response may name the origin")
	})
}

// the handshake response under every interleaving of the handler with the goroutine that
// writes the response (C17: cookie and events on exactly that response)
func init() {
	register("C17", "handshake-interleavings", false, func(c *Ctx) {
		n := 0
		for _, cc := range cookieCfgs()[1:] {
			for _, eio := range []int{4, 3} {
				for _, jsonp := range []bool{false, true} {
					cc, eio, jsonp := cc, eio, jsonp
					n++
					id := fmt.Sprintf("handshake cookie=%s eio=%d jsonp=%v", cc.name, eio, jsonp)
					c.ExploreDev(id, Pick(c, 1, 2), Pick(c, 3, 5), cookieBody(cc, []string{"H"}, eio, jsonp))
				}
			}
		}
		// two handshakes submitted together: each response carries its own session's id
		for _, cc := range cookieCfgs()[1:] {
			cc := cc
			n++
			c.ExploreDev(fmt.Sprintf("two handshakes together cookie=%s", cc.name), Pick(c, 1, 2), Pick(c, 3, 5), cookieBody(cc, []string{"HH"}, 4, false))
		}
		c.Res.Distinct = int64(n)
		c.Note("two polling handshakes submitted together per cookie configuration, every interleaving of the two handlers and send goroutines up to the bound: each handshake response carries Set-Cookie with the id of the session its own open packet names")
		c.Note("one polling handshake per cookie configuration x revision x JSONP, every interleaving of the handler and the send goroutine that writes the handshake response (<=%d preemptions): Set-Cookie with the session id, initial_headers and headers exactly once on that response", Pick(c, 1, 2))
	})
}
