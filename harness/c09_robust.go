package harness

import (
	"bytes"
	"compress/flate"
	"fmt"
	"strings"
	"time"

	"github.com/zishang520/engine.io/v2/config"
	"github.com/zishang520/engine.io/v2/types"
	"verifrt/vsched"
)

// C09 — no client input can crash, hang or starve the server. Scripts of
// protocol-shaped but mutated inputs against a victim session, next to a canary
// session that must still complete a round trip.

// one client input
type rbInput struct {
	name string
	// do sends the input; returns the number of bytes the client sent
	do func(v *rbVictim) int
}

type rbVictim struct {
	w    *World
	x    *vsched.Exec
	kind string // polling4 | polling3 | jsonp4 | websocket4 | websocket3 | webtransport | upgrade-v4-eio3 | upgrade-v3-eio4 | upgrade-v4
	pc   *PollClient
	ws   *WSClient
	wc   *WTClient
	rec  *SockRec
	reqs []*Resp
	must []*Resp // polls issued with data already buffered for them: they have to be answered
	// upgrade kinds: the candidate
	cand *WSClient
}

// appBatch hands n messages of the given size to the victim's session from an application goroutine.
func (v *rbVictim) appBatch(n, size int) {
	if v.rec == nil {
		return
	}
	rec := v.rec
	vsched.GoNamed("app-batch", func() {
		for i := 0; i < n; i++ {
			rec.Sock.Send(types.NewStringBufferString(strings.Repeat("p", size)), nil, nil)
		}
	})
}

func (v *rbVictim) post(body []byte, ct string) int {
	v.reqs = append(v.reqs, v.pc.PostRaw(body, ct))
	return len(body)
}

func rbPollingInputs(eio int) []rbInput {
	txt := "text/plain;charset=UTF-8"
	raw := func(name string, body string, ct string) rbInput {
		return rbInput{name, func(v *rbVictim) int { return v.post([]byte(body), ct) }}
	}
	in := []rbInput{
		raw("empty", "", txt),
		raw("garbage", "zzz", txt),
		raw("bare-type", "4", txt),
		raw("unknown-type-7", "7", txt),
		raw("unknown-type-9x", "9x", txt),
		raw("bad-base64", "b4@@@@", txt),
		raw("bad-base64-v3", "6:b4@@@@", txt),
		raw("invalid-utf8", "4\xff\xfe\xc0", txt),
		raw("only-separators", "\x1e\x1e\x1e", txt),
		raw("v3-truncated-length", "99:4x", txt),
		raw("v3-inflated-length", "999999999999:4x", txt),
		raw("v3-huge-length", "99999999999999999999999999:4x", txt),
		raw("v3-non-numeric-length", "x:4", txt),
		raw("v3-negative-length", "-1:4x", txt),
		raw("v3-colons", ":::", txt),
		raw("v3-zero-length", "0:", txt),
		raw("octet-stream-text", "4hello", "application/octet-stream"),
		raw("octet-stream-no-ff", "\x00\x01\x024x", "application/octet-stream"),
		raw("octet-stream-inflated", "\x00\x09\x09\x09\x09\x09\x09\x09\x09\x09\xff4x", "application/octet-stream"),
		raw("octet-stream-bad-digit", "\x00\x41\xff4", "application/octet-stream"),
		raw("octet-stream-bad-kind", "\x07\x01\xff4", "application/octet-stream"),
		raw("octet-stream-empty", "", "application/octet-stream"),
		raw("form-garbage", "d=%zz", "application/x-www-form-urlencoded"),
		raw("form-no-d", "x=1", "application/x-www-form-urlencoded"),
		raw("heartbeat-ping", map[int]string{4: "2", 3: "1:2"}[eio], txt),
		raw("heartbeat-pong", map[int]string{4: "3", 3: "1:3"}[eio], txt),
		raw("open-packet", map[int]string{4: `0{"sid":"x"}`, 3: `12:0{"sid":"x"}`}[eio], txt),
		raw("upgrade-packet", map[int]string{4: "5", 3: "1:5"}[eio], txt),
		raw("message", map[int]string{4: "4ok", 3: "3:4ok"}[eio], txt),
		{"chunked-post", func(v *rbVictim) int {
			// a data request without Content-Length (chunked transfer)
			body := map[int]string{4: "4ok", 3: "3:4ok"}[eio]
			v.reqs = append(v.reqs, v.w.Request("POST", v.pc.url(true), ReqOpt{Body: []byte(body), UnknownLength: true, Hdr: map[string]string{"Content-Type": txt}}))
			return len(body)
		}},
		{"chunked-post-empty", func(v *rbVictim) int {
			v.reqs = append(v.reqs, v.w.Request("POST", v.pc.url(true), ReqOpt{Body: []byte{}, UnknownLength: true, Hdr: map[string]string{"Content-Type": txt}}))
			return 0
		}},
		{"method-put", func(v *rbVictim) int {
			v.reqs = append(v.reqs, v.w.Request("PUT", v.pc.url(true), ReqOpt{Body: []byte("4x")}))
			return 2
		}},
		{"method-delete", func(v *rbVictim) int {
			v.reqs = append(v.reqs, v.w.Request("DELETE", v.pc.url(true), ReqOpt{}))
			return 0
		}},
		{"repeated-sid", func(v *rbVictim) int {
			v.reqs = append(v.reqs, v.w.Request("POST", v.pc.url(true)+"&sid=zzz&transport=bogus&EIO=9", ReqOpt{Body: []byte("4x"), Hdr: map[string]string{"Content-Type": txt}}))
			return 2
		}},
		{"poll-with-body", func(v *rbVictim) int {
			v.reqs = append(v.reqs, v.w.Request("GET", v.pc.url(true), ReqOpt{Body: []byte("4x")}))
			return 2
		}},
		{"handshake-naming-webtransport", func(v *rbVictim) int {
			v.reqs = append(v.reqs, v.w.Request("GET", "/engine.io/?EIO=4&transport=webtransport", ReqOpt{}))
			return 0
		}},
		{"request-naming-webtransport-with-sid", func(v *rbVictim) int {
			v.reqs = append(v.reqs, v.w.Request("GET", "/engine.io/?EIO=4&transport=webtransport&sid="+v.pc.Sid, ReqOpt{}))
			return 0
		}},
		{"ws-upgrade-naming-webtransport", func(v *rbVictim) int {
			v.reqs = append(v.reqs, v.w.Request("GET", "/engine.io/?EIO=4&transport=webtransport&sid="+v.pc.Sid, ReqOpt{Hdr: WSUpgradeHeaders(false), Hijackable: true}))
			return 0
		}},
		{"ws-upgrade-naming-polling", func(v *rbVictim) int {
			v.reqs = append(v.reqs, v.w.Request("GET", "/engine.io/?EIO=4&transport=polling&sid="+v.pc.Sid, ReqOpt{Hdr: WSUpgradeHeaders(false), Hijackable: true}))
			return 0
		}},
		{"poll-accept-encoding-x-gzip-with-data", func(v *rbVictim) int { return v.pollAE("x-gzip") }},
		{"poll-accept-encoding-compress-star", func(v *rbVictim) int { return v.pollAE("compress, *;q=0.1") }},
		{"poll-accept-encoding-malformed", func(v *rbVictim) int { return v.pollAE(",;q=,gzip;q=abc, ;;") }},
		{"second-poll", func(v *rbVictim) int {
			v.reqs = append(v.reqs, v.pc.Get())
			return 0
		}},
		{"abort-poll", func(v *rbVictim) int {
			r := v.pc.Get()
			v.reqs = append(v.reqs, r)
			vsched.GoNamed("aborter", func() { r.Abort() })
			return 0
		}},
	}
	return in
}

// pollAE: the application has 2000 bytes buffered for the session, the client polls with an unusual
// Accept-Encoding header; the poll must be answered.
func (v *rbVictim) pollAE(ae string) int {
	if v.rec != nil && v.rec.Count("close") == 0 {
		rec := v.rec
		vsched.GoNamed("app-batch", func() {
			// (when an earlier poll of the script is still outstanding the data goes out with that one)
			free := true
			for _, q := range v.reqs {
				if strings.HasPrefix(q.Desc, "GET") && q.Conn == nil && !q.wrote && !q.Returned {
					free = false
				}
			}
			rec.Sock.Send(types.NewStringBufferString(strings.Repeat("p", 2000)), nil, nil)
			h := map[string]string{"Accept-Encoding": ae}
			r := v.w.Request("GET", v.pc.url(true), ReqOpt{Hdr: h})
			v.reqs = append(v.reqs, r)
			if free {
				v.must = append(v.must, r)
			}
		})
	}
	return len(ae)
}

func rbFrameInputs() []rbInput {
	wsf := func(name string, op byte, payload string) rbInput {
		return rbInput{name, func(v *rbVictim) int {
			c := v.ws
			if v.cand != nil {
				c = v.cand
			}
			if c != nil {
				c.SendFrame(op, []byte(payload))
			} else {
				v.wc.SendRaw(wtEncode(wtMsg{op == 2, []byte(payload)}, 0))
			}
			return len(payload) + 6
		}}
	}
	return []rbInput{
		wsf("text-garbage", 1, "zzz"),
		wsf("text-empty", 1, ""),
		wsf("binary-empty", 2, ""),
		wsf("binary-9", 2, "\x09"),
		wsf("binary-type-only", 2, "\x04"),
		wsf("text-invalid-utf8", 1, "4\xff\xfe"),
		wsf("bad-base64", 1, "b4@@@"),
		wsf("unknown-type", 1, "8"),
		wsf("heartbeat-ping", 1, "2"),
		wsf("heartbeat-pong", 1, "3"),
		wsf("probe", 1, "2probe"),
		wsf("v3-binary-ping-probe", 2, "\x02probe"),
		wsf("v3-base64-ping-probe", 1, "b2cHJvYmU="),
		wsf("v3-binary-message", 2, "\x04hi"),
		wsf("v3-binary-upgrade", 2, "\x05"),
		wsf("upgrade", 1, "5"),
		wsf("open", 1, `0{"sid":"x"}`),
		wsf("close-packet", 1, "1"),
		wsf("message", 1, "4ok"),
		wsf("noop", 1, "6"),
		{"ws-ping-frame", func(v *rbVictim) int {
			if c := v.anyWS(); c != nil {
				c.SendFrame(9, []byte("hi"))
			}
			return 8
		}},
		{"ws-pong-frame", func(v *rbVictim) int {
			if c := v.anyWS(); c != nil {
				c.SendFrame(10, nil)
			}
			return 6
		}},
		{"ws-continuation-without-start", func(v *rbVictim) int {
			if c := v.anyWS(); c != nil {
				c.SendFrame(0, []byte("x"))
			}
			return 7
		}},
		{"ws-reserved-bits", func(v *rbVictim) int {
			if c := v.anyWS(); c != nil && c.pipe() != nil {
				f := maskedFrame(1, true, []byte("4x"))
				f[0] |= 0x70
				c.pipe().ClientWrite(f)
			}
			return 8
		}},
		{"ws-unmasked", func(v *rbVictim) int {
			if c := v.anyWS(); c != nil && c.pipe() != nil {
				c.pipe().ClientWrite([]byte{0x81, 0x02, '4', 'x'})
			}
			return 4
		}},
		{"ws-close-frame", func(v *rbVictim) int {
			if c := v.anyWS(); c != nil {
				c.SendClose(1000, "bye")
			}
			return 11
		}},
		{"ws-close-frame-bad", func(v *rbVictim) int {
			if c := v.anyWS(); c != nil {
				c.SendFrame(8, []byte{0x03})
			}
			return 7
		}},
		{"ws-truncated-frame-then-drop", func(v *rbVictim) int {
			if c := v.anyWS(); c != nil && c.pipe() != nil {
				c.pipe().ClientWrite([]byte{0x81, 0xFE, 0x10})
				c.Drop()
			}
			return 3
		}},
		{"wt-truncated-frame-then-close", func(v *rbVictim) int {
			if v.wc != nil {
				v.wc.SendRaw([]byte{0x7e, 0x10})
				v.wc.Stream.PeerClose()
			}
			return 2
		}},
		{"wt-length-64bit-huge", func(v *rbVictim) int {
			if v.wc != nil {
				v.wc.SendRaw([]byte{0x7f, 0xff, 0xff, 0xff, 0xff, 0xff, 0xff, 0xff, 0xff, 'x'})
			}
			return 10
		}},
		{"drop-with-app-batch-in-flight", func(v *rbVictim) int {
			// the peer goes away while the application has a batch of several frames on its way out
			if v.cand == nil {
				v.appBatch(4, 3000)
			}
			if c := v.anyWS(); c != nil {
				c.Drop()
			} else if v.wc != nil {
				v.wc.Stream.PeerClose()
			}
			if v.cand == nil {
				v.appBatch(3, 10)
			}
			return 0
		}},
		{"close-frame-with-app-batch-in-flight", func(v *rbVictim) int {
			if v.cand == nil {
				v.appBatch(4, 3000)
			}
			if c := v.anyWS(); c != nil {
				c.SendClose(1001, "going away")
			} else if v.wc != nil {
				v.wc.Stream.PeerClose()
			}
			if v.cand == nil {
				v.appBatch(3, 10)
			}
			return 11
		}},
		{"drop", func(v *rbVictim) int {
			if c := v.anyWS(); c != nil {
				c.Drop()
			} else if v.wc != nil {
				v.wc.Stream.PeerClose()
			}
			return 0
		}},
	}
}

func (v *rbVictim) anyWS() *WSClient {
	if v.cand != nil {
		return v.cand
	}
	return v.ws
}

func rbOpen(x *vsched.Exec, w *World, kind string) *rbVictim {
	v := &rbVictim{w: w, x: x, kind: kind}
	openPoll := func(eio int, jsonp bool) bool {
		v.pc = &PollClient{W: w, EIO: eio}
		if jsonp {
			v.pc.JSONP = "4"
		}
		r := v.pc.Get()
		x.Settle()
		pk, err := v.pc.DecodeResp(r)
		if err != nil || len(pk) == 0 {
			return false
		}
		open, _ := ParseOpen(pk[0])
		v.pc.Sid, _ = open["sid"].(string)
		v.rec = w.ByID[v.pc.Sid]
		return v.rec != nil
	}
	switch kind {
	case "polling4":
		if !openPoll(4, false) {
			return nil
		}
	case "polling3":
		if !openPoll(3, false) {
			return nil
		}
	case "jsonp4":
		if !openPoll(4, true) {
			return nil
		}
	case "websocket4", "websocket3":
		eio := 4
		if kind == "websocket3" {
			eio = 3
		}
		before := len(w.Socks)
		v.ws = w.DialWS(eio, "", false, false, "")
		x.Settle()
		if !v.ws.Ready() || len(w.Socks) != before+1 {
			return nil
		}
		v.rec = w.Socks[len(w.Socks)-1]
	case "webtransport":
		before := len(w.Socks)
		v.wc = w.DialWT(0)
		v.wc.Handshake()
		x.Settle()
		if len(w.Socks) != before+1 {
			return nil
		}
		v.rec = w.Socks[len(w.Socks)-1]
	case "upgrade-v4-eio3", "upgrade-v3-eio4", "upgrade-v4", "upgrade-v3":
		// a polling session and a websocket candidate whose revision parameter may differ
		sessEIO, candEIO := 4, 4
		switch kind {
		case "upgrade-v4-eio3":
			candEIO = 3
		case "upgrade-v3-eio4":
			sessEIO = 3
		case "upgrade-v3":
			sessEIO, candEIO = 3, 3
		}
		if !openPoll(sessEIO, false) {
			return nil
		}
		v.cand = w.DialWS(candEIO, v.pc.Sid, false, false, "")
		x.Settle()
		if !v.cand.Ready() {
			return nil
		}
	}
	return v
}

// offenders remembers, per failure class, the inputs that fail on their own: a longer script that
// contains one of them is attributed to that input, so that fingerprints name the offending input.
func rbBody(kind string, script []rbInput, offenders map[string]bool) vsched.Body {
	return func(x *vsched.Exec) {
		attribute := func(class string) string {
			for _, in := range script {
				if offenders[class+"|"+in.name] {
					return in.name
				}
			}
			if len(script) == 1 {
				offenders[class+"|"+script[0].name] = true
				return script[0].name
			}
			var n []string
			for _, in := range script {
				n = append(n, in.name)
			}
			return strings.Join(n, ";")
		}
		o := config.DefaultServerOptions()
		o.SetAllowEIO3(true)
		o.SetTransports(types.NewSet("polling", "websocket", "webtransport"))
		w := NewWorld(x, o)
		var names []string
		for _, in := range script {
			names = append(names, in.name)
		}
		id := fmt.Sprintf("%s | %s", kind, strings.Join(names, " ; "))
		// canary
		canary := &PollClient{W: w, EIO: 4}
		cr := canary.Get()
		x.Settle()
		if pk, err := canary.DecodeResp(cr); err == nil && len(pk) > 0 {
			if open, e := ParseOpen(pk[0]); e == nil {
				canary.Sid, _ = open["sid"].(string)
			}
		}
		crec := w.ByID[canary.Sid]
		if crec == nil {
			x.Fail("setup: canary (%s)", id)
			return
		}
		v := rbOpen(x, w, kind)
		if v == nil {
			x.Fail("setup: victim %s could not be opened (%s)", kind, id)
			return
		}
		ticks0 := x.Ticks()
		bytes := 0
		for _, in := range script {
			in := in
			vsched.GoNamed("client:"+in.name, func() { bytes += in.do(v) })
			x.Run(x.Now() + 300*time.Millisecond)
		}
		x.Run(x.Now() + 2*time.Second)
		work := x.Ticks() - ticks0
		clsOf := func(class string) string { return fmt.Sprintf("[%s %s]", kind, attribute(class)) }
		for _, t := range x.Panics() {
			if vsched.IsHang(t.Panic) {
				x.Fail("hang%s: thread %s exceeded the work budget (10^7 loop iterations) (%s)\n%s", clsOf("hang"), t.Name, id, trimStack(t.Stack))
			} else {
				x.Fail("panic%s: thread %s: %v (%s)\n%s", clsOf("panic"), t.Name, t.Panic, id, trimStack(t.Stack))
			}
		}
		for _, r := range w.Resps {
			if r.Panic != nil {
				x.Fail("panic%s: the handler of %s panicked: %v (%s)", clsOf("panic"), r.Desc, r.Panic, id)
			}
		}
		// work in proportion to the bytes received (loop iterations of the engine and its parser)
		if limit := int64(3000*len(script) + 400*bytes + 20000); work > limit {
			x.Fail("work-out-of-proportion%s: %d loop iterations for %d client bytes in %d inputs (bound %d) (%s)", clsOf("work-out-of-proportion"), work, bytes, len(script), limit, id)
		}
		// every request of the script was answered and its handler returned, unless it is the one poll an open session holds
		pendingPolls := 0
		for _, r := range v.reqs {
			if r.Returned {
				if r.HeaderCalls > 1 {
					x.Fail("double-response%s: %s answered twice (%s)", clsOf("double-response"), r.Desc, id)
				}
				continue
			}
			if r.Conn != nil {
				continue
			}
			if strings.HasPrefix(r.Desc, "GET") && v.rec != nil && v.rec.Count("close") == 0 && !r.aborted {
				pendingPolls++
				continue
			}
			x.Fail("handler-stuck%s: %s was never answered, its handler is still blocked (session %s) (%s)", clsOf("handler-stuck"), r.Desc, stateOf(v.rec), id)
		}
		for _, r := range v.must {
			if !r.wrote && !r.Returned && v.rec != nil && v.rec.Count("close") == 0 {
				x.Fail("handler-stuck%s: %s was issued with data buffered for it and was never answered although the session is open (%s)", clsOf("handler-stuck"), r.Desc, id)
			}
		}
		if pendingPolls > 1 {
			x.Fail("handler-stuck%s: %d polls of one session outstanding (%s)", clsOf("handler-stuck"), pendingPolls, id)
		}
		// threads of a connection that is gone must be gone too
		if v.rec != nil && v.rec.Count("close") > 0 || (v.cand != nil && v.cand.ServerClosed()) || (v.ws != nil && v.ws.ServerClosed()) {
			for _, t := range x.Live() {
				if strings.Contains(t.Name, "transports/websocket.go") || strings.Contains(t.Name, "transports/webtransport.go") {
					// the victim is the only websocket/webtransport connection of the execution
					x.Fail("goroutine-stuck%s: thread %s outlived its connection (%s)", clsOf("goroutine-stuck"), t.Name, id)
				}
			}
		}
		// timers: every open session holds one pending heartbeat timer; an upgrade attempt still in
		// progress holds two more (timeout, check interval); anything beyond that was left behind
		// (counted 31s later: a polling transport closed without a pending poll keeps a 30s close timer)
		x.Run(x.Now() + 31*time.Second)
		timers := 0
		for _, t := range x.Live() {
			if strings.Contains(t.Name, "utils/timer.go") {
				timers++
			}
		}
		allowedTimers := liveCount(w)
		if v.rec != nil && v.rec.Count("close") == 0 && v.rec.Sock.Upgrading() {
			allowedTimers += 2
		}
		if timers > allowedTimers {
			x.Fail("timer-left-behind%s: %d timer goroutines alive, %d sessions open, upgrading=%v (%s)", clsOf("timer-left-behind"), timers, liveCount(w), v.rec != nil && v.rec.Sock.Upgrading(), id)
		}
		// only the offending session may close; the canary keeps working
		for _, s := range w.Socks {
			if s != v.rec && s.Count("close") != 0 {
				x.Fail("collateral-close%s: another session closed with %v (%s)", clsOf("collateral-close"), s.CloseReasons(), id)
			}
		}
		before := len(crec.Messages())
		p2 := canary.Post([]Pkt{Msg("c")})
		x.Run(x.Now() + time.Second)
		if !p2.wrote || p2.Code != 200 || len(crec.Messages()) != before+1 {
			x.Fail("canary-broken%s: the other session's round trip failed: status %d (%s)", clsOf("canary-broken"), p2.Code, id)
		}
		if n := int(w.Srv.ClientsCount()); n != liveCount(w) {
			x.Fail("registry-drift%s: ClientsCount=%d, %d sessions not closed (%s)", clsOf("registry-drift"), n, liveCount(w), id)
		}
		x.Outcome = fmt.Sprintf("victim=%s work=%d", stateOf(v.rec), work/1000)
	}
}

// overlapped: another poll of the script was still outstanding when r was issued (r is then refused, not answered with data)
func (v *rbVictim) overlapped(r *Resp) bool {
	for _, q := range v.reqs {
		if q != r && strings.HasPrefix(q.Desc, "GET") && q.Conn == nil && !q.wrote && !q.Returned {
			return true
		}
	}
	return false
}

func stateOf(r *SockRec) string {
	if r == nil {
		return "none"
	}
	if cr := r.CloseReasons(); len(cr) > 0 {
		return "closed:" + cr[0]
	}
	return r.Sock.ReadyState()
}

func liveCount(w *World) int {
	n := 0
	for _, s := range w.Socks {
		if s.Count("close") == 0 {
			n++
		}
	}
	return n
}

func init() {
	kinds := []struct {
		kind   string
		inputs func() []rbInput
	}{
		{"polling4", func() []rbInput { return rbPollingInputs(4) }},
		{"polling3", func() []rbInput { return rbPollingInputs(3) }},
		{"jsonp4", func() []rbInput { return rbPollingInputs(4) }},
		{"websocket4", rbFrameInputs},
		{"websocket3", rbFrameInputs},
		{"webtransport", rbFrameInputs},
		{"upgrade-v4", rbFrameInputs},
		{"upgrade-v3", rbFrameInputs},
		{"upgrade-v4-eio3", rbFrameInputs},
		{"upgrade-v3-eio4", rbFrameInputs},
	}
	for _, k := range kinds {
		k := k
		register("C09", "scripts/"+k.kind, false, func(c *Ctx) {
			ins := k.inputs()
			offenders := map[string]bool{}
			n := 0
			run := func(script []rbInput) {
				var names []string
				for _, in := range script {
					names = append(names, in.name)
				}
				n++
				id := fmt.Sprintf("%s | %s", k.kind, strings.Join(names, " ; "))
				c.Once(id, rbBody(k.kind, script, offenders))
				if n%257 == 1 {
					c.Sample(id)
				}
			}
			for _, a := range ins {
				run([]rbInput{a})
			}
			for _, a := range ins {
				for _, b := range ins {
					run([]rbInput{a, b})
				}
			}
			if c.Thorough() {
				for _, a := range ins {
					for _, b := range ins {
						for _, d := range ins {
							run([]rbInput{a, b, d})
						}
					}
				}
			} else {
				for i, a := range ins {
					for j, b := range ins {
						if (i*7+j)%5 == 0 {
							run([]rbInput{a, b, ins[(i*3+j*5+2)%len(ins)]})
						}
					}
				}
			}
			c.Res.Distinct = int64(n)
			c.Note("all scripts of length 1-2 and a fifth (thorough: all) of length 3 over %d mutated inputs on a %s victim next to a canary session; oracles: no panic / work-budget abort in any thread, loop iterations of engine+parser bounded by 3000/input + 400/byte + 20000, every request answered and its handler returned (one pending poll of an open session excepted), no reader goroutine outliving its connection, no other session closed, canary round trip, registry count = live sessions", len(ins), k.kind)
		})
	}
}

// ---- the WebTransport session handler itself ----

func init() {
	register("C09", "wt-handler", false, func(c *Ctx) {
		firsts := []struct {
			name string
			raw  []byte
		}{
			{"open-empty", wtEncode(wtMsg{false, []byte("0")}, 0)},
			{"open-known-sid", nil}, // filled in per execution
			{"open-unknown-sid", wtEncode(wtMsg{false, []byte(`0{"sid":"nope"}`)}, 0)},
			{"open-null", wtEncode(wtMsg{false, []byte("0null")}, 0)},
			{"open-empty-object", wtEncode(wtMsg{false, []byte("0{}")}, 0)},
			{"open-array", wtEncode(wtMsg{false, []byte("0[]")}, 0)},
			{"open-sid-number", wtEncode(wtMsg{false, []byte(`0{"sid":1}`)}, 0)},
			{"open-garbage-json", wtEncode(wtMsg{false, []byte(`0{"sid":`)}, 0)},
			{"message-first", wtEncode(wtMsg{false, []byte("4hello")}, 0)},
			{"empty-frame", wtEncode(wtMsg{false, nil}, 0)},
			{"binary-first", wtEncode(wtMsg{true, []byte{0, 1, 2}}, 0)},
			{"truncated-frame", []byte{0x7e, 0x10}},
			{"huge-length", []byte{0x7f, 0xff, 0xff, 0xff, 0xff, 0xff, 0xff, 0xff, 0xff}},
			{"over-limit", wtEncode(wtMsg{false, []byte("0" + strings.Repeat("x", 2000))}, 0)},
			{"nothing", nil},
			{"disconnect", nil},
			{"no-stream", nil},
		}
		n := 0
		for _, f := range firsts {
			for _, second := range []string{"", "message", "garbage", "close"} {
				f, second := f, second
				n++
				id := fmt.Sprintf("wt-handler | first=%s then=%s", f.name, second)
				c.Once(id, func(x *vsched.Exec) {
					o := config.DefaultServerOptions()
					o.SetTransports(types.NewSet("polling", "websocket", "webtransport"))
					o.SetMaxHttpBufferSize(1000)
					o.SetUpgradeTimeout(3 * time.Second)
					w := NewWorld(x, o)
					srv := NewWTServer()
					canary := &PollClient{W: w, EIO: 4}
					cr := canary.Get()
					x.Settle()
					if pk, err := canary.DecodeResp(cr); err == nil && len(pk) > 0 {
						if open, e := ParseOpen(pk[0]); e == nil {
							canary.Sid, _ = open["sid"].(string)
						}
					}
					crec := w.ByID[canary.Sid]
					// a second polling session that an upgrade may name
					other := &PollClient{W: w, EIO: 4}
					or := other.Get()
					x.Settle()
					if pk, err := other.DecodeResp(or); err == nil && len(pk) > 0 {
						if open, e := ParseOpen(pk[0]); e == nil {
							other.Sid, _ = open["sid"].(string)
						}
					}
					if crec == nil || other.Sid == "" {
						x.Fail("setup: sessions (%s)", id)
						return
					}
					wc := w.DialWTHandler(srv)
					raw := f.raw
					if f.name == "open-known-sid" {
						raw = wtEncode(wtMsg{false, []byte(`0{"sid":"` + other.Sid + `"}`)}, 0)
					}
					vsched.GoNamed("wt-client", func() {
						if f.name == "no-stream" {
							return
						}
						wc.Connect()
						if f.name == "disconnect" {
							wc.Stream.PeerClose()
							return
						}
						if raw != nil {
							wc.SendRaw(raw)
						}
						switch second {
						case "message":
							wc.SendPkt(Msg("hi"))
						case "garbage":
							wc.SendRaw(wtEncode(wtMsg{false, []byte("zzz")}, 0))
						case "close":
							wc.Stream.PeerClose()
						}
					})
					x.Run(x.Now() + 5*time.Second)
					cls := "[wt-handler first=" + f.name + "]"
					for _, t := range x.Panics() {
						x.Fail("panic%s: thread %s: %v (%s)\n%s", cls, t.Name, t.Panic, id, trimStack(t.Stack))
					}
					hr := w.Resps[len(w.Resps)-1]
					if !hr.Returned {
						x.Fail("handler-stuck%s: the session handler has not returned 5s later (upgrade timeout 3s): blocked=%v (%s)", cls, x.Blocked(), id)
					}
					// handshake packets that are not a well-formed open packet must not create or disturb a session
					created := len(w.Socks) - 2
					switch f.name {
					case "open-empty":
						if created != 1 {
							x.Fail("wt-handshake%s: %d sessions created by a well-formed handshake (%s)", cls, created, id)
						}
					default:
						if created != 0 {
							x.Fail("wt-session-created%s: %d sessions created (%s)", cls, created, id)
						}
					}
					if f.name != "open-empty" && f.name != "open-known-sid" && f.name != "no-stream" && !wc.Closed() && !wc.Stream.closed {
						x.Fail("wt-not-closed%s: the refused connection was not closed by the server (%s)", cls, id)
					}
					for _, s := range w.Socks[:2] {
						if s.Count("close") != 0 {
							x.Fail("collateral-close%s: an existing session closed with %v (%s)", cls, s.CloseReasons(), id)
						}
					}
					p2 := canary.Post([]Pkt{Msg("c")})
					x.Run(x.Now() + time.Second)
					if !p2.wrote || p2.Code != 200 || len(crec.Messages()) != 1 {
						x.Fail("canary-broken%s: status %d (%s)", cls, p2.Code, id)
					}
					x.Outcome = fmt.Sprintf("created=%d closed=%v", created, wc.Closed())
				})
			}
		}
		c.Res.Distinct = int64(n)
		c.Sample("wt-handler | first=open-null then=")
		c.Note("the real OnWebTransportSession handler over a real, initialised webtransport-go server (fake HTTP/3 response writer, the client's stream offered through the server's own StreamHijacker): 17 first packets (well-formed handshake, upgrade for a known / unknown sid, 0null, 0{}, 0[], sid of the wrong type, truncated JSON, non-open first packet, empty / binary / truncated / oversized frames, silence, disconnect, no stream) x a following message / garbage / disconnect; no panic, handler returns, no session created or disturbed by a refused handshake, canary round trip")
	})
}

// A compressed frame that inflates above the maximum payload size arrives while the application's
// batch is being written on the same connection (E1): the refusal must not disturb the writer.
func init() {
	register("C09", "inflated-frame-while-writing", false, func(c *Ctx) {
		c.ExploreDev("websocket with permessage-deflate: oversized inflated frame || application batch", Pick(c, 1, 2), Pick(c, 3, 5), func(x *vsched.Exec) {
			o := config.DefaultServerOptions()
			o.SetMaxHttpBufferSize(100)
			o.SetPerMessageDeflate(&types.PerMessageDeflate{Threshold: 0})
			w := NewWorld(x, o)
			x.Frozen = true
			canary := &PollClient{W: w, EIO: 4}
			cr := canary.Get()
			x.Settle()
			if pk, err := canary.DecodeResp(cr); err == nil && len(pk) > 0 {
				if open, e := ParseOpen(pk[0]); e == nil {
					canary.Sid, _ = open["sid"].(string)
				}
			}
			crec := w.ByID[canary.Sid]
			ws := w.DialWS(4, "", false, true, "")
			x.Settle()
			if crec == nil || !ws.Ready() || len(w.Socks) != 2 {
				x.Fail("setup: sessions")
				return
			}
			rec := w.Socks[1]
			x.Frozen = false
			vsched.GoNamed("app-batch", func() {
				for i := 0; i < 3; i++ {
					rec.Sock.Send(types.NewStringBufferString(strings.Repeat("s", 60)), nil, nil)
				}
			})
			vsched.GoNamed("client", func() {
				var zb bytes.Buffer
				zw, _ := flate.NewWriter(&zb, flate.BestCompression)
				zw.Write([]byte("4" + strings.Repeat("m", 5000)))
				zw.Flush()
				f := maskedFrame(1, true, bytes.TrimSuffix(zb.Bytes(), []byte{0, 0, 0xff, 0xff}))
				f[0] |= 0x40
				if p := ws.pipe(); p != nil {
					p.ClientWrite(f)
				}
			})
			x.Run(x.Now() + 2*time.Second)
			for _, t := range x.Panics() {
				x.Fail("panic[websocket inflated-frame-while-writing]: thread %s: %v", t.Name, t.Panic)
			}
			for _, m := range rec.Messages() {
				if len(m.Data) > 100 {
					x.Fail("oversized-delivered[websocket inflated-frame-while-writing]: a message of %d bytes was delivered", len(m.Data))
				}
			}
			if crec.Count("close") != 0 {
				x.Fail("collateral-close[websocket inflated-frame-while-writing]: the other session closed with %v", crec.CloseReasons())
			}
			x.Frozen = true
			p2 := canary.Post([]Pkt{Msg("c")})
			x.Run(x.Now() + time.Second)
			if !p2.wrote || p2.Code != 200 || len(crec.Messages()) != 1 {
				x.Fail("canary-broken[websocket inflated-frame-while-writing]: the other session's round trip failed: status %d", p2.Code)
			}
		})
		c.Res.Distinct = 1
		c.Note("a websocket session with permessage-deflate: a compressed frame inflating to 50x the maximum payload size arrives while a three-message batch of the application is being written, every interleaving (scheduling points inside the connection's writes) up to the bound: no panic, nothing oversized delivered, the other session unaffected")
	})
}
