package harness

import (
	"encoding/json"
	"unsafe"

	"github.com/zishang520/engine.io/v2/types"
	"verifrt/vsched"
)

// WTClient is the client end of an engine-level WebTransport connection driven
// through the real session handler (OnWebTransportSession over a real
// webtransport-go server, see wtreal.go): only the QUIC/HTTP-3 layers below the
// handler are fakes.
type WTClient struct {
	W       *World
	Stream  *fakeStream
	Sess    *fakeSession
	Conn    *types.WebTransportConn
	Ctx     *types.HttpContext
	connect func() // real-handler mode: offers the client's stream to the server
	parsed  int    // bytes of Stream.out already decoded
	Got     []wtMsg
}

// DialWT starts the real session handler for a new WebTransport connection (see wtreal.go);
// nothing is sent yet. The read limit is the one the handler installs from the server options.
func (w *World) DialWT(_ int64) *WTClient {
	if w.WT == nil {
		w.WT = NewWTServer()
	}
	return w.DialWTHandler(w.WT)
}

// Handshake: the client opens its stream and sends the handshake packet of a fresh session
// (in the calling thread when that is a scheduled one, else in a thread of its own).
func (c *WTClient) Handshake() {
	c.opening(func() {
		c.Connect()
		c.SendRaw(wtEncode(wtMsg{false, []byte("0")}, 0))
	}, "wt-open")
}

// Upgrade: the client opens its stream and announces itself as a candidate for the session sid.
func (c *WTClient) Upgrade(sid string) {
	c.opening(func() {
		c.Connect()
		c.SendRaw(wtEncode(wtMsg{false, []byte(`0{"sid":"` + sid + `"}`)}, 0))
	}, "wt-candidate")
}

func (c *WTClient) opening(do func(), name string) {
	if vsched.Scheduled() {
		do()
		return
	}
	vsched.GoNamed(name, func() {
		c.W.BeginAction()
		do()
	})
}

// SendPkt writes one packet as a frame (revision 4 framing).
func (c *WTClient) SendPkt(p Pkt) {
	data, bin := EncodeFrame4(p, false)
	c.Stream.PeerWrite(wtEncode(wtMsg{Binary: bin, Data: data}, 0))
}

// SendRaw writes raw bytes.
func (c *WTClient) SendRaw(b []byte) { c.Stream.PeerWrite(b) }

// Frames parses what the server has written so far.
func (c *WTClient) Frames() []wtMsg {
	d := wtDecode(c.Stream.out[c.parsed:])
	for _, m := range d.Msgs {
		c.Got = append(c.Got, wtMsg{m.Binary, append([]byte(nil), m.Data...)})
	}
	c.parsed += d.Consumed
	return c.Got
}

// Pkts decodes all frames received so far.
func (c *WTClient) Pkts() ([]Pkt, error) {
	var out []Pkt
	for _, f := range c.Frames() {
		p, err := DecodeFrame4(f.Data, f.Binary)
		if err != nil {
			return out, err
		}
		out = append(out, p)
	}
	return out, nil
}

// Closed reports whether the server closed the session.
func (c *WTClient) Closed() bool { return c.Sess.Closed() }

func (c *WTClient) obj() uintptr { return uintptr(unsafe.Pointer(c.Stream)) }

var _ = json.Marshal

// Connect opens the client's bidirectional stream (real-handler mode).
func (c *WTClient) Connect() {
	if c.connect != nil {
		c.connect()
	}
}
