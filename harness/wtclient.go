package harness

import (
	"encoding/json"
	"net/http/httptest"
	"unsafe"

	"github.com/zishang520/engine.io/v2/events"
	"github.com/zishang520/engine.io/v2/types"
	wt "github.com/zishang520/engine.io/v2/webtransport"
	"verifrt/vsched"
)

// WTClient is the client end of an engine-level WebTransport connection. The
// HTTP/3 session handler (OnWebTransportSession) cannot be driven without a QUIC
// stack; the harness performs what it does after the bidirectional stream is
// accepted — wrap the stream in a real webtransport.Conn, read the handshake
// packet, then call the exported Handshake / MaybeUpgrade — so everything
// from the Conn downwards and from Handshake upwards is the real code.
type WTClient struct {
	W      *World
	Stream *fakeStream
	Sess   *fakeSession
	Conn   *types.WebTransportConn
	Ctx    *types.HttpContext
	parsed int // bytes of Stream.out already decoded
	Got    []wtMsg
}

// DialWT creates the connection objects; nothing is sent yet.
func (w *World) DialWT(maxPayload int64) *WTClient {
	fs := newFakeStream(nil)
	fs.live = true
	sess := newFakeSession()
	sess.Req.bound = fs
	conn := wt.NewConn(sess.S, fs, true, 0, 0, nil, nil, nil)
	if maxPayload > 0 {
		conn.SetReadLimit(maxPayload)
	}
	req := httptest.NewRequest("CONNECT", "/engine.io/?EIO=4&transport=webtransport", nil)
	req.Proto = "webtransport"
	ctx := types.NewHttpContext(httptest.NewRecorder(), req)
	ctx.WebTransport = &types.WebTransportConn{EventEmitter: events.New(), Conn: conn}
	return &WTClient{W: w, Stream: fs, Sess: sess, Conn: ctx.WebTransport, Ctx: ctx}
}

// Handshake runs the server side of a fresh WebTransport session (what the
// session handler does for the handshake packet "0") in a thread of its own.
func (c *WTClient) Handshake() {
	vsched.GoNamed("wt-handshake", func() {
		c.W.BeginAction()
		c.Ctx.Query().Set("EIO", "4")
		c.W.Srv.Handshake("webtransport", c.Ctx)
	})
}

// Upgrade runs the server side of an upgrade candidate for the session sid: the
// same gate as the session handler (known, not upgrading, not upgraded), then MaybeUpgrade.
func (c *WTClient) Upgrade(sid string) {
	vsched.GoNamed("wt-candidate", func() {
		c.W.BeginAction()
		client, ok := c.W.Srv.Clients().Load(sid)
		if !ok || client.Upgrading() || client.Upgraded() {
			c.Conn.CloseWithError(0, "")
			return
		}
		tr, err := c.W.Srv.CreateTransport("webtransport", c.Ctx)
		if err != nil {
			c.Conn.CloseWithError(0, "")
			return
		}
		tr.SetPerMessageDeflate(c.W.Srv.Opts().PerMessageDeflate())
		client.MaybeUpgrade(tr)
	})
}

// SendPkt writes one packet as a frame (revision 4 framing).
func (c *WTClient) SendPkt(p Pkt) {
	data, bin := EncodeFrame4(p, false)
	c.Stream.PeerWrite(wtEncode(wtMsg{Binary: bin, Data: data}, 0))
}

// SendRaw writes raw bytes.
func (c *WTClient) SendRaw(b []byte) { c.Stream.PeerWrite(b) }

// Frames parses what the server has written so far.
func (c *WTClient) Frames() []wtMsg {
	d := wtDecode(c.Stream.out[c.parsed:])
	for _, m := range d.Msgs {
		c.Got = append(c.Got, wtMsg{m.Binary, append([]byte(nil), m.Data...)})
	}
	c.parsed += d.Consumed
	return c.Got
}

// Pkts decodes all frames received so far.
func (c *WTClient) Pkts() ([]Pkt, error) {
	var out []Pkt
	for _, f := range c.Frames() {
		p, err := DecodeFrame4(f.Data, f.Binary)
		if err != nil {
			return out, err
		}
		out = append(out, p)
	}
	return out, nil
}

// Closed reports whether the server closed the session.
func (c *WTClient) Closed() bool { return c.Sess.Closed() }

func (c *WTClient) obj() uintptr { return uintptr(unsafe.Pointer(c.Stream)) }

var _ = json.Marshal
