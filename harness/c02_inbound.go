package harness

import (
	"fmt"
	"strings"
	"time"

	"github.com/zishang520/engine.io/v2/config"
	"github.com/zishang520/engine.io/v2/types"
	"verifrt/vsched"
)

// C02 — inbound delivery. The reference *encoder* produces what a conformant
// client puts on the wire for a packet list; the real server must surface
// exactly the message packets before the first close packet.

type inCarrier struct {
	kind    string // polling | jsonp | websocket | webtransport
	eio     int
	b64     bool
	bin     bool // polling v3: client uses the binary payload form when the list holds binary data
	chunked bool // the data request has no Content-Length (chunked upload)
}

func (k inCarrier) String() string {
	if k.chunked {
		return fmt.Sprintf("%s/EIO%d/b64=%v/binary-payload=%v/chunked", k.kind, k.eio, k.b64, k.bin)
	}
	return fmt.Sprintf("%s/EIO%d/b64=%v/binary-payload=%v", k.kind, k.eio, k.b64, k.bin)
}

func inCarriers() []inCarrier {
	return []inCarrier{
		{"polling", 4, false, false, false}, {"polling", 4, true, false, false},
		{"polling", 3, false, true, false}, {"polling", 3, false, false, false}, {"polling", 3, true, false, false},
		{"jsonp", 4, false, false, false}, {"jsonp", 3, true, false, false},
		{"websocket", 4, false, false, false}, {"websocket", 4, true, false, false}, {"websocket", 3, false, false, false}, {"websocket", 3, true, false, false},
		{"webtransport", 4, false, false, false},
		{"polling", 4, false, false, true}, {"polling", 3, true, false, true}, {"jsonp", 4, false, false, true},
	}
}

var big65537 = strings.Repeat("0123456789abcdef", 4096) + "!"

// inAlphabetFor drops what a conformant client cannot send on the carrier: the revision-4 payload
// separator inside text of a polling payload, and the close packet on frame transports (a
// websocket / webtransport client closes the connection instead).
func inAlphabetFor(car inCarrier) []Pkt {
	var out []Pkt
	for _, p := range inAlphabet(car.eio) {
		if (car.kind == "polling" || car.kind == "jsonp") && car.eio == 4 && !p.Binary && strings.ContainsRune(string(p.Data), 0x1e) {
			continue
		}
		if (car.kind == "websocket" || car.kind == "webtransport") && p.Type == '1' {
			continue
		}
		out = append(out, p)
	}
	return out
}

func inAlphabet(eio int) []Pkt {
	hb := Pkt{Type: '3'} // revision 4: the client sends pongs
	if eio == 3 {
		hb = Pkt{Type: '2'} // revision 3: the client sends pings
	}
	return []Pkt{
		Msg(""), Msg("a"), Msg("€"), Msg("😀x"), Msg("\n"), Msg(`\n`), Msg(`a\\nb\n`), Msg("4"), Msg("b4"), Msg(":"), Msg("2:4x"), Msg("\x1e"), Msg(`"q"&d=1%41+ `),
		MsgBin([]byte{}), MsgBin([]byte{0}), MsgBin([]byte{0xFF, 0x1E, 0x0A}),
		hb, {Type: '6'}, {Type: '5'}, {Type: '1'},
		Msg(big65537), MsgBin([]byte(big65537)),
	}
}

func inboundBody(car inCarrier, list []Pkt) vsched.Body {
	return func(x *vsched.Exec) {
		o := config.DefaultServerOptions()
		o.SetAllowEIO3(true)
		o.SetTransports(types.NewSet("polling", "websocket", "webtransport"))
		w := NewWorld(x, o)
		id := fmt.Sprintf("%s | %s", car, fmtPkts(list))
		fp := fmt.Sprintf("[%s eio%d b64=%v]", car.kind, car.eio, car.b64)
		var pc *PollClient
		var ws *WSClient
		var wc *WTClient
		switch car.kind {
		case "polling", "jsonp":
			pc = &PollClient{W: w, EIO: car.eio, B64: car.b64}
			if car.kind == "jsonp" {
				pc.JSONP = "5"
			}
			r := pc.Get()
			x.Settle()
			pk, err := pc.DecodeResp(r)
			if err != nil || len(pk) == 0 {
				x.Fail("setup: handshake: %v (%s)", err, id)
				return
			}
			open, _ := ParseOpen(pk[0])
			pc.Sid, _ = open["sid"].(string)
		case "websocket":
			ws = w.DialWS(car.eio, "", car.b64, false, "")
			x.Settle()
			if !ws.Ready() {
				x.Fail("setup: websocket refused (%s)", id)
				return
			}
		case "webtransport":
			wc = w.DialWT(0)
			wc.Handshake()
			x.Settle()
		}
		if len(w.Socks) != 1 {
			x.Fail("setup: %d sessions (%s)", len(w.Socks), id)
			return
		}
		rec := w.Socks[0]
		// expected: message packets before the first close packet
		var want []Pkt
		closeAt := -1
		for i, p := range list {
			if p.Type == '1' {
				closeAt = i
				break
			}
			if p.Type == '4' {
				want = append(want, p)
			}
		}
		var post *Resp
		switch {
		case pc != nil:
			if car.bin && !anyBinary(list) {
				x.Outcome = "skipped"
				return // the binary payload form is only used when there is binary data
			}
			var body []byte
			var ct string
			if car.kind == "polling" && car.eio == 3 && !car.b64 && !car.bin {
				// string payload form (binary packets travel as base64 inside it)
				body, ct = EncodePayload3String(list), "text/plain;charset=UTF-8"
			} else {
				body, ct = pc.EncodeBody(list)
			}
			if car.chunked {
				post = w.Request("POST", pc.url(true), ReqOpt{Hdr: map[string]string{"Content-Type": ct}, Body: body, UnknownLength: true})
			} else {
				post = pc.PostRaw(body, ct)
			}
		case ws != nil:
			vsched.GoNamed("client", func() {
				for _, p := range list {
					ws.SendPkt(p)
				}
			})
		case wc != nil:
			vsched.GoNamed("client", func() {
				for _, p := range list {
					wc.SendPkt(p)
				}
			})
		}
		x.Run(x.Now() + time.Second)
		for _, t := range x.Panics() {
			x.Fail("panic%s: thread %s: %v (%s)", fp, t.Name, t.Panic, id)
		}
		got := rec.Messages()
		big := false
		for _, p := range list {
			if len(p.Data) > 65536 {
				big = true
			}
		}
		cls := fmt.Sprintf("[%s eio%d b64=%v big=%v]", car.kind, car.eio, car.b64, big)
		// two decoding defects of the parser dependency (outside /repo) get classes of their own
		switch {
		case car.bin && (len(list) > 1 || !allASCIIText(list)):
			cls = "[dependency v3-binary-payload-decoder several-packets-or-non-ascii-text]"
		case (car.kind == "polling" || car.kind == "jsonp") && car.eio == 4 && big:
			cls = "[dependency v4-payload-decoder packet-over-64KiB]"
		}
		if !pktsEqual(got, want) {
			x.Fail("inbound%s: client submitted %s, application received %s (expected %s); session %s %v (%s)", cls, fmtPkts(list), fmtPkts(got), fmtPkts(want), rec.Sock.ReadyState(), rec.CloseReasons(), id)
		}
		if post != nil {
			if !post.wrote || post.Code != 200 || string(post.Body) != "ok" {
				x.Fail("inbound-ack%s: data request answered %d %s (wrote=%v) (%s)", cls, post.Code, bodyPreview(post.Body), post.wrote, id)
			}
		}
		if closeAt >= 0 {
			if cr := rec.CloseReasons(); len(cr) != 1 || cr[0] != "transport close" {
				x.Fail("inbound-close%s: close packet in the payload, close events %v (%s)", cls, cr, id)
			}
		} else if rec.Count("close") != 0 {
			x.Fail("inbound-closed%s: session closed with %v by well-formed packets (%s)", cls, rec.CloseReasons(), id)
		}
		x.Outcome = fmt.Sprintf("%d messages", len(got))
	}
}

func init() {
	for _, car := range inCarriers() {
		car := car
		register("C02", "lists/"+car.String(), false, func(c *Ctx) {
			alpha := inAlphabetFor(car)
			small := alpha[:len(alpha)-2]
			n := 0
			run := func(list []Pkt) {
				n++
				id := fmt.Sprintf("%s | %s", car, fmtPkts(list))
				c.Once(id, inboundBody(car, list))
				if n%409 == 1 {
					c.Sample(id)
				}
			}
			for _, a := range alpha {
				run([]Pkt{a})
			}
			for _, a := range alpha {
				for _, b := range small {
					run([]Pkt{a, b})
					if len(a.Data) > 65536 {
						run([]Pkt{b, a})
					}
				}
			}
			if c.Thorough() {
				for _, a := range small {
					for _, b := range small {
						for _, d := range small {
							run([]Pkt{a, b, d})
						}
					}
				}
			} else {
				for i, a := range small {
					for j, b := range small {
						if (i+j)%3 == 0 {
							run([]Pkt{a, b, small[(i*5+j*3+1)%len(small)]})
						}
					}
				}
			}
			c.Res.Distinct = int64(n)
			c.Note("packet lists of length 1-2 (all pairs) and 3 (quick: a third of them; thorough: all) over %d packets (text \"\", ascii, multi-byte, newline, escaped newline, separator-like, length-prefix-like, form-encoding characters; binary empty/NUL/separator bytes; heartbeat, noop, upgrade, close; 65537-byte text and binary) encoded by the reference encoder for %s; oracle: message events = message packets before the first close packet, same kind and bytes, data request acknowledged ok, close packet closes with transport close", len(alpha), car)
		})
	}
	// never delivered: packets on a candidate that has not completed the upgrade, anything after the close event
	register("C02", "never-delivered", false, func(c *Ctx) {
		n := 0
		for _, cand := range []string{"websocket", "webtransport"} {
			for _, script := range [][]Pkt{{Msg("early")}, {{Type: '2', Data: []byte("probe")}, Msg("after-probe")}, {Msg("m1"), {Type: '2', Data: []byte("probe")}, Msg("m2")}} {
				cand, script := cand, script
				n++
				id := fmt.Sprintf("candidate %s sends %s before any upgrade packet", cand, fmtPkts(script))
				c.Once(id, func(x *vsched.Exec) {
					o := config.DefaultServerOptions()
					o.SetTransports(types.NewSet("polling", "websocket", "webtransport"))
					w := NewWorld(x, o)
					s := openSession(x, w, "polling", true)
					if s == nil {
						return
					}
					if cand == "websocket" {
						ws := w.DialWS(4, s.pc.Sid, false, false, "")
						x.Settle()
						vsched.GoNamed("candidate", func() {
							for _, p := range script {
								ws.SendPkt(p)
							}
						})
					} else {
						wc := w.DialWT(0)
						wc.Upgrade(s.pc.Sid)
						x.Settle()
						vsched.GoNamed("candidate", func() {
							for _, p := range script {
								wc.SendPkt(p)
							}
						})
					}
					x.Run(x.Now() + 2*time.Second)
					if m := s.rec.Messages(); len(m) != 0 {
						x.Fail("candidate-message-delivered[%s]: packets sent on a candidate transport that never completed an upgrade surfaced as messages %s (%s)", cand, fmtPkts(m), id)
					}
					if s.rec.Count("close") != 0 || s.rec.Sock.Upgraded() {
						x.Fail("candidate-message-effect[%s]: session close=%v upgraded=%v (%s)", cand, s.rec.CloseReasons(), s.rec.Sock.Upgraded(), id)
					}
					for _, t := range x.Panics() {
						x.Fail("panic[candidate]: %v (%s)", t.Panic, id)
					}
				})
			}
		}
		for _, kind := range []string{"polling", "websocket"} {
			kind := kind
			n++
			id := "message after the close event on " + kind
			c.Once(id, func(x *vsched.Exec) {
				w := NewWorld(x, sessOpts())
				s := openSession(x, w, kind, false)
				if s == nil {
					return
				}
				vsched.GoNamed("close", func() { s.rec.Sock.Close(true) })
				x.Settle()
				if s.pc != nil {
					s.pc.Post([]Pkt{Msg("late")})
				} else {
					vsched.GoNamed("late", func() { s.ws.SendPkt(Msg("late")) })
				}
				x.Run(x.Now() + time.Second)
				if m := s.rec.Messages(); len(m) != 0 {
					x.Fail("message-after-close[%s]: %s (%s)", kind, fmtPkts(m), id)
				}
			})
		}
		c.Res.Distinct = int64(n)
		c.Note("messages sent on a websocket / webtransport candidate before, between and after the probe without an upgrade packet; a message submitted after the close event")
	})
}

func allASCIIText(list []Pkt) bool {
	for _, p := range list {
		if !p.Binary && !isASCII(p.Data) {
			return false
		}
	}
	return true
}

// Order across consecutive data requests (E1): the client posts [m1 m2], waits for the
// acknowledgement, then posts [m3]; every interleaving of the handlers and whatever goroutines
// the server uses to process a payload. Also on websocket: three frames back to back.
func init() {
	register("C02", "order-across-requests", false, func(c *Ctx) {
		n := 0
		for _, kind := range []string{"polling", "polling3", "websocket", "webtransport"} {
			kind := kind
			n++
			id := "order across requests on " + kind
			c.ExploreDev(id, Pick(c, 1, 2), Pick(c, 3, 5), func(x *vsched.Exec) {
				w := NewWorld(x, sessOpts())
				s := openSession(x, w, kind, false)
				if s == nil {
					return
				}
				var acks []*Resp
				vsched.GoNamed("client", func() {
					w.BeginAction()
					switch {
					case s.pc != nil:
						r1 := s.pc.Post([]Pkt{Msg("m1"), Msg("m2")})
						acks = append(acks, r1)
						r1.Wait()
						r2 := s.pc.Post([]Pkt{Msg("m3")})
						acks = append(acks, r2)
						r2.Wait()
					case s.ws != nil:
						s.ws.SendPkt(Msg("m1"))
						s.ws.SendPkt(Msg("m2"))
						s.ws.SendPkt(Msg("m3"))
					case s.wc != nil:
						s.wc.SendPkt(Msg("m1"))
						s.wc.SendPkt(Msg("m2"))
						s.wc.SendPkt(Msg("m3"))
					}
				})
				x.Run(x.Now() + time.Second)
				var got []string
				for _, m := range s.rec.Messages() {
					got = append(got, string(m.Data))
				}
				if strings.Join(got, ",") != "m1,m2,m3" {
					x.Fail("inbound-order[%s]: submitted m1 m2 | m3 (second request after the first was acknowledged), delivered %v", kind, got)
				}
				for i, r := range acks {
					// the acknowledgement comes after the payload's packets have been processed
					if r.wrote && r.Code == 200 {
						want := []string{"m1", "m2"}
						if i == 1 {
							want = []string{"m1", "m2", "m3"}
						}
						seen := 0
						for _, e := range s.rec.Events {
							if e.Name == "message" && e.Seq < r.WroteSeq {
								seen++
							}
						}
						if seen < len(want) {
							x.Fail("ack-before-processing[%s]: data request #%d acknowledged after %d of %d message events", kind, i+1, seen, len(want))
						}
					}
				}
				for _, t := range x.Panics() {
					x.Fail("panic[%s]: %v", kind, t.Panic)
				}
				x.Outcome = strings.Join(got, ",")
			})
		}
		c.Res.Distinct = int64(n)
		c.Note("two consecutive data requests ([m1 m2], then [m3] after the first acknowledgement) / three frames back to back, every interleaving up to the bound: messages delivered in submission order, acknowledgement only after the payload's message events")
	})
}

// The first data request of a fresh session submitted together with its first poll (what a client does
// right after the handshake), and data requests of two sessions submitted together: the session lookup
// of each request runs concurrently with the other's.
func init() {
	for _, kind := range []string{"polling", "polling3"} {
		for _, sessions := range []int{1, 2} {
			kind, sessions := kind, sessions
			register("C02", fmt.Sprintf("data-with-first-poll/%s/%d", kind, sessions), kind == "polling3" && sessions == 2, func(c *Ctx) {
				n := 1
				id := fmt.Sprintf("first data request together with the first poll on %s, %d session(s)", kind, sessions)
				c.ExploreDev(id, Pick(c, 1, 2), Pick(c, 3, 4), func(x *vsched.Exec) {
					w := NewWorld(x, sessOpts())
					var ss []*sess
					x.Frozen = true
					for i := 0; i < sessions; i++ {
						eio := 4
						if kind == "polling3" {
							eio = 3
						}
						pc := &PollClient{W: w, EIO: eio}
						r := pc.Get()
						x.Settle()
						pk, err := pc.DecodeResp(r)
						if err != nil || len(pk) == 0 {
							x.Fail("setup: handshake failed")
							return
						}
						open, _ := ParseOpen(pk[0])
						pc.Sid, _ = open["sid"].(string)
						ss = append(ss, &sess{w: w, x: x, pc: pc, rec: w.Socks[len(w.Socks)-1]})
					}
					x.Frozen = false
					posts := make([]*Resp, sessions)
					polls := make([]*Resp, sessions)
					for i, s := range ss {
						i, s := i, s
						vsched.GoNamed(fmt.Sprintf("client%d-data", i+1), func() {
							w.BeginAction()
							posts[i] = s.pc.Post([]Pkt{Msg(fmt.Sprintf("hello-%d", i+1))})
						})
						vsched.GoNamed(fmt.Sprintf("client%d-poll", i+1), func() {
							w.BeginAction()
							polls[i] = s.pc.Get()
						})
					}
					x.Run(x.Now() + time.Second)
					for i, s := range ss {
						var got []string
						for _, m := range s.rec.Messages() {
							got = append(got, string(m.Data))
						}
						if posts[i] == nil || !posts[i].wrote || posts[i].Code != 200 || string(posts[i].Body) != "ok" {
							code, body := 0, ""
							if posts[i] != nil {
								code, body = posts[i].Code, bodyPreview(posts[i].Body)
							}
							x.Fail("inbound-ack[%s first-request]: the data request of open session %d was answered %d %s", kind, i+1, code, body)
						}
						if len(got) != 1 || got[0] != fmt.Sprintf("hello-%d", i+1) {
							x.Fail("inbound[%s first-request]: session %d: client submitted [hello-%d], application received %v", kind, i+1, i+1, got)
						}
						if polls[i] != nil && polls[i].wrote && polls[i].Code != 200 {
							x.Fail("inbound-poll-refused[%s first-request]: the first poll of open session %d was answered %d %s", kind, i+1, polls[i].Code, bodyPreview(polls[i].Body))
						}
						if s.rec.Count("close") != 0 {
							x.Fail("inbound-closed[%s first-request]: session %d closed with %v", kind, i+1, s.rec.CloseReasons())
						}
					}
					for _, t := range x.Panics() {
						x.Fail("panic[%s]: %v", kind, t.Panic)
					}
					x.Outcome = fmt.Sprint(len(w.ConnErrs))
				})
				c.Res.Distinct = int64(n)
				c.Note("fresh polling sessions (1 or 2) whose first data request and first poll are submitted together, every interleaving up to the bound (session lookups run concurrently, the client table is still in its freshly written state): every request is answered 200, every message delivered to its own session")
			})
		}
	}
	// revision 3: text payloads and binary payloads alternate on one session
	register("C02", "v3-mixed-body-kinds", false, func(c *Ctx) {
		n := 0
		bodies := [][]Pkt{{Msg("hi")}, {MsgBin([]byte{1, 2, 3, 4})}, {Msg("a"), Msg("b")}, {Msg("x"), MsgBin([]byte{9})}}
		var rec func(seq [][]Pkt)
		rec = func(seq [][]Pkt) {
			if len(seq) >= 2 {
				seqc := append([][]Pkt(nil), seq...)
				desc := ""
				for _, b := range seqc {
					desc += fmtPkts(b)
				}
				n++
				c.Once("v3 session, data requests "+desc, func(x *vsched.Exec) {
					w := NewWorld(x, sessOpts())
					s := openSession(x, w, "polling3", true)
					if s == nil {
						return
					}
					var want []Pkt
					for i, b := range seqc {
						r := s.pc.Post(b)
						x.Settle()
						// (the parser dependency's binary-payload decoder mishandles several packets: single-packet binary bodies only)
						want = append(want, b...)
						if !r.wrote || r.Code != 200 {
							x.Fail("inbound-ack[polling3 mixed-kinds]: data request #%d answered %d", i+1, r.Code)
						}
					}
					got := s.rec.Messages()
					if !pktsEqual(got, want) {
						x.Fail("inbound[polling3 mixed-kinds]: client submitted %s over %d requests, application received %s", fmtPkts(want), len(seqc), fmtPkts(got))
					}
				})
			}
			if len(seq) == 3 {
				return
			}
			for _, b := range bodies[:2] {
				rec(append(seq, b))
			}
		}
		rec(nil)
		c.Res.Distinct = int64(n)
		c.Note("one revision-3 polling session, 2-3 consecutive data requests alternating text payloads and binary (octet-stream) payloads in every order: all messages delivered in order with their kind")
	})
}

// Frames delivered to the server in small pieces (1 / 2 / 3 bytes per stream read) on webtransport and
// websocket, around the frame-length classes; and messages of exactly the maximum payload size the
// server announced, on every transport.
func init() {
	register("C02", "fragmented-frames", false, func(c *Ctx) {
		n := 0
		for _, kind := range []string{"webtransport", "websocket"} {
			for _, chunk := range []int{1, 2, 3} {
				for _, size := range []int{5, 125, 126, 127, 200, 4095, 4096, 4097, 70000} {
					kind, chunk, size := kind, chunk, size
					if size == 70000 {
						chunk = 997 * chunk // (a step per byte would exhaust the execution's step budget)
					}
					n++
					id := fmt.Sprintf("%s frames read %d byte(s) at a time, messages of %d bytes", kind, chunk, size)
					c.Once(id, func(x *vsched.Exec) {
						w := NewWorld(x, sessOpts())
						s := openSession(x, w, kind, false)
						if s == nil {
							return
						}
						msgs := []Pkt{Msg(strings.Repeat("t", size)), MsgBin(wtPayload(size, true)), Msg("x"), MsgBin(wtPayload(size, true)), Msg(strings.Repeat("u", size))}
						if s.wc != nil {
							s.wc.Stream.chunk = chunk
						} else {
							s.ws.pipe().SrvReadChunk = chunk
						}
						vsched.GoNamed("client", func() {
							for _, m := range msgs {
								if s.wc != nil {
									s.wc.SendPkt(m)
								} else {
									s.ws.SendPkt(m)
								}
							}
						})
						x.Run(x.Now() + time.Second)
						if got := s.rec.Messages(); !pktsEqual(got, msgs) {
							x.Fail("inbound[%s fragmented-frames]: client submitted %s, application received %s; session %s %v", kind, fmtPkts(msgs), fmtPkts(got), s.rec.Sock.ReadyState(), s.rec.CloseReasons())
						}
						for _, t := range x.Panics() {
							x.Fail("panic[%s]: %v", kind, t.Panic)
						}
					})
				}
			}
		}
		c.Res.Distinct = int64(n)
		c.Note("five messages (text, binary, small text, binary, text) of sizes around the frame-length classes and the read buffer, delivered to the server 1 / 2 / 3 bytes per read on webtransport and websocket: same messages, same kinds, same order")
	})
	register("C02", "exact-max-payload", false, func(c *Ctx) {
		n := 0
		for _, kind := range []string{"polling", "polling3", "websocket", "webtransport"} {
			for _, max := range []int64{100, 4096} {
				for _, bin := range []bool{false, true} {
					kind, max, bin := kind, max, bin
					n++
					id := fmt.Sprintf("%s message of exactly the announced maxPayload %d binary=%v", kind, max, bin)
					c.Once(id, func(x *vsched.Exec) {
						o := sessOpts()
						o.SetMaxHttpBufferSize(max)
						w := NewWorld(x, o)
						s := openSession(x, w, kind, false)
						if s == nil {
							return
						}
						// the wire form of the packet (type character / byte + data; polling v3: with its length prefix) has exactly max bytes
						var m Pkt
						size := func(d int) int {
							var p Pkt
							if bin {
								p = MsgBin(wtPayload(d, true))
							} else {
								p = Msg(strings.Repeat("t", d))
							}
							if s.pc != nil {
								b, _ := s.pc.EncodeBody([]Pkt{p})
								return len(b)
							}
							return d + 1
						}
						d := int(max)
						for d > 0 && size(d) > int(max) {
							d--
						}
						if bin {
							m = MsgBin(wtPayload(d, true))
						} else {
							m = Msg(strings.Repeat("t", d))
						}
						if size(d) != int(max) {
							x.Outcome = "no encoding of exactly that size"
							return
						}
						// three of them in a row: the limit is per message, not per connection
						vsched.GoNamed("client", func() {
							for i := 0; i < 3; i++ {
								switch {
								case s.pc != nil:
									r := s.pc.Post([]Pkt{m})
									r.Wait()
								case s.ws != nil:
									s.ws.SendPkt(m)
								default:
									s.wc.SendPkt(m)
								}
							}
						})
						x.Run(x.Now() + time.Second)
						if got := s.rec.Messages(); !pktsEqual(got, []Pkt{m, m, m}) {
							x.Fail("inbound[%s exact-max-payload]: three messages whose wire form has exactly the announced maxPayload (%d bytes) each were not all delivered: received %s; session %s %v", kind, max, fmtPkts(got), s.rec.Sock.ReadyState(), s.rec.CloseReasons())
						}
					})
				}
			}
		}
		c.Res.Distinct = int64(n)
		c.Note("a message whose wire form has exactly the maximum payload size the open packet announced (100 / 4096), text and binary, on polling v4/v3, websocket and webtransport: delivered")
	})
}
