package harness

import (
	"fmt"
	"sort"
	"strings"
	"time"

	"github.com/zishang520/engine.io/v2/utils"
	"verifrt/vsched"
)

// C19 — timers. Reference model: a timer has a due instant (or none). A fire
// event at the due instant runs the callback (timeout: due becomes none;
// interval: due += period). Refresh sets due = now+period, Stop sets none.
// Events at the same virtual instant may be linearised in any order.

const tUnit = time.Second
const tPeriod = 2 // grid units

type refTimer struct {
	interval bool
	due      int // -1 none
	cbs      []int
}

func (r *refTimer) clone() *refTimer {
	c := *r
	c.cbs = append([]int(nil), r.cbs...)
	return &c
}

func (r *refTimer) fire(t int) {
	r.cbs = append(r.cbs, t)
	if r.interval {
		r.due = t + tPeriod
	} else {
		r.due = -1
	}
}

func (r *refTimer) apply(op string, t int) {
	switch op {
	case "refresh":
		r.due = t + tPeriod
	case "stop", "clear":
		r.due = -1
	}
}

type timedOp struct {
	op string
	at int
}

// refOutcomes returns every callback-instant list the reference allows for ops
// issued at their instants (co-instant events in any order), followed by a
// final Stop at instant end.
func refOutcomes(interval bool, ops []timedOp, end int) map[string]bool {
	out := map[string]bool{}
	var rec func(r *refTimer, t int, pending []timedOp)
	rec = func(r *refTimer, t int, pending []timedOp) {
		if t > end {
			out[fmt.Sprint(r.cbs)] = true
			return
		}
		progressed := false
		for i, p := range pending {
			if p.at != t {
				continue
			}
			progressed = true
			c := r.clone()
			c.apply(p.op, t)
			rest := append(append([]timedOp(nil), pending[:i]...), pending[i+1:]...)
			rec(c, t, rest)
		}
		if r.due == t {
			progressed = true
			c := r.clone()
			c.fire(t)
			rec(c, t, pending)
		}
		if !progressed {
			rec(r, t+1, pending)
		}
	}
	rec(&refTimer{interval: interval, due: tPeriod}, 0, ops)
	return out
}

func timerCheckEnd(x *vsched.Exec, cbs *[]int, tm *utils.Timer, end int, want map[string]bool, fp, what string) {
	// final cancellation, then 5 more periods: nothing may run, nothing may remain
	done := false
	vsched.GoNamed("final-stop", func() { utils.ClearTimeout(tm); done = true })
	x.Settle()
	if !done {
		x.Fail("stop-blocked["+fp+"]: final Stop did not return (%s)", what)
	}
	n := len(*cbs)
	x.Advance(5 * tPeriod * tUnit)
	if len(*cbs) != n {
		x.Fail("callback-after-stop["+fp+"]: %d callback(s) at %v after the final Stop returned at %d (%s)", len(*cbs)-n, (*cbs)[n:], end, what)
	}
	got := fmt.Sprint((*cbs)[:n])
	if !want[got] {
		x.Fail("callback-instants["+fp+"]: got %s, reference allows %v (%s)", got, sortedKeys(want), what)
	}
	if live := x.Live(); len(live) > 0 {
		var names []string
		for _, t := range live {
			names = append(names, t.String())
		}
		sort.Strings(names)
		x.Fail("goroutine-left["+fp+"]: %d timer goroutine(s) alive 5 periods after the final Stop: %v blocked=%v (%s)", len(live), names, x.Blocked(), what)
	}
	x.Outcome = got
}

func timerSeqBody(interval bool, ops []string) vsched.Body {
	return func(x *vsched.Exec) {
		var cbs []int
		cb := func() { cbs = append(cbs, int(x.Now()/tUnit)) }
		var tm *utils.Timer
		run := func(name string, f func()) {
			done := false
			vsched.GoNamed(name, func() { f(); done = true })
			x.Settle()
			if !done {
				x.Fail("op-blocked[%s sequential %s]: did not return promptly (%v)", kindName(interval), name, ops)
			}
		}
		now := 0
		var tops []timedOp
		run("set", func() {
			if interval {
				tm = utils.SetInterval(cb, tPeriod*tUnit)
			} else {
				tm = utils.SetTimeout(cb, tPeriod*tUnit)
			}
		})
		ref := &refTimer{interval: interval, due: tPeriod}
		for _, op := range ops {
			switch op {
			case "adv1", "adv2":
				d := 1
				if op == "adv2" {
					d = 2
				}
				for i := 0; i < d; i++ {
					now++
					if ref.due == now {
						ref.fire(now)
					}
				}
				x.Advance(time.Duration(d) * tUnit)
			case "refresh":
				run(op, func() { tm.Refresh() })
				ref.apply(op, now)
			case "stop":
				run(op, func() { tm.Stop() })
				ref.apply(op, now)
			case "clear":
				run(op, func() { utils.ClearTimeout(tm) })
				ref.apply(op, now)
			}
			tops = append(tops, timedOp{op, now})
		}
		want := map[string]bool{fmt.Sprint(ref.cbs): true}
		timerCheckEnd(x, &cbs, tm, now, want, kindName(interval)+" sequential", fmt.Sprintf("ops=%v", ops))
	}
}

func timerRaceBody(interval bool, a, b timedOp, end int) vsched.Body {
	return timerRaceBodyN(interval, []timedOp{a, b}, end)
}

func timerRaceBodyN(interval bool, all []timedOp, end int) vsched.Body {
	var tops []timedOp
	var whats []string
	for _, p := range all {
		if p.op != "" {
			tops = append(tops, p)
		}
		whats = append(whats, fmt.Sprintf("%s@%d", p.op, p.at))
	}
	want := refOutcomes(interval, tops, end)
	what := strings.Join(whats, " || ")
	// fingerprint detail: the racing operation classes, "@tick" when issued at an
	// instant at which the timer is due (so that it races the timer goroutine)
	cls := func(p timedOp) string {
		if p.op == "" {
			return ""
		}
		c := "cancel"
		if p.op == "refresh" {
			c = "refresh"
		}
		if p.at >= tPeriod {
			c += "@tick"
		}
		return c
	}
	var parts []string
	for _, p := range all {
		if c := cls(p); c != "" {
			parts = append(parts, c)
		}
	}
	sort.Strings(parts)
	fp := kindName(interval) + " " + strings.Join(parts, "||")
	return func(x *vsched.Exec) {
		var cbs []int
		cb := func() { cbs = append(cbs, int(x.Now()/tUnit)) }
		var tm *utils.Timer
		doneN := 0
		spawn := func(p timedOp) {
			vsched.GoNamed(p.op, func() {
				vsched.SleepUntil(time.Duration(p.at) * tUnit)
				switch p.op {
				case "refresh":
					tm.Refresh()
				case "stop":
					tm.Stop()
				case "clear":
					utils.ClearTimeout(tm)
				}
				doneN++
			})
		}
		vsched.GoNamed("set", func() {
			if interval {
				tm = utils.SetInterval(cb, tPeriod*tUnit)
			} else {
				tm = utils.SetTimeout(cb, tPeriod*tUnit)
			}
			// operations at instant 0 start as soon as the constructor has returned: they race the
			// start of the timer's own goroutine
			for _, p := range tops {
				if p.at == 0 {
					spawn(p)
				}
			}
		})
		x.Settle()
		for _, p := range tops {
			if p.at != 0 {
				spawn(p)
			}
		}
		x.Run(time.Duration(end) * tUnit)
		if doneN != len(tops) {
			x.Fail("op-blocked["+fp+"]: %d concurrent operation(s) did not return (%s) blocked=%v", len(tops)-doneN, what, x.Blocked())
		}
		timerCheckEnd(x, &cbs, tm, end, want, fp, what)
	}
}

func kindName(interval bool) string {
	if interval {
		return "interval"
	}
	return "timeout"
}

func init() {
	alphabet := []string{"adv1", "adv2", "refresh", "stop", "clear"}
	for _, interval := range []bool{false, true} {
		interval := interval
		kind := map[bool]string{false: "timeout", true: "interval"}[interval]
		register("C19", "seq/"+kind, false, func(c *Ctx) {
			maxLen := Pick(c, 4, 5)
			var seq []string
			var rec func(cancelled bool)
			n := 0
			rec = func(cancelled bool) {
				if len(seq) > 0 {
					id := kind + ":" + strings.Join(seq, ",")
					n++
					if c.Thorough() {
						c.Explore(id, 1, timerSeqBody(interval, append([]string(nil), seq...)))
					} else {
						c.Once(id, timerSeqBody(interval, append([]string(nil), seq...)))
					}
					if n%97 == 1 {
						c.Sample(id)
					}
				}
				if len(seq) == maxLen {
					return
				}
				for _, op := range alphabet {
					// Refresh of a cancelled timer is not specified by the property: excluded.
					if op == "refresh" && cancelled {
						continue
					}
					seq = append(seq, op)
					rec(cancelled || op == "stop" || op == "clear")
					seq = seq[:len(seq)-1]
				}
			}
			rec(false)
			c.Res.Distinct = int64(n)
			c.Note("all operation sequences of length 1..%d over %v after Set%s(period 2), refresh-after-cancel excluded; each followed by final cancel + 5 periods", maxLen, alphabet, kind)
		})
		register("C19", "race/"+kind, false, func(c *Ctx) {
			opsA := []string{"stop", "refresh", "clear"}
			// instant 0: the operation races the start of the timer's goroutine
			ats := []int{0, 1, 2}
			if interval {
				ats = []int{0, 1, 2, 4}
			}
			n := 0
			for _, a := range opsA {
				for _, ta := range ats {
					n++
					id := fmt.Sprintf("%s:%s@%d", kind, a, ta)
					c.Explore(id, Pick(c, 3, 5), timerRaceBody(interval, timedOp{a, ta}, timedOp{}, 7))
				}
			}
			for i, a := range opsA {
				for _, b := range opsA[i:] {
					for _, ta := range ats {
						for _, tb := range ats {
							if a == b && tb < ta {
								continue
							}
							// concurrent Refresh with a cancellation at different instants where the
							// cancel comes first is refresh-after-cancel: unspecified, excluded.
							if (a == "refresh") != (b == "refresh") {
								tr, tc := ta, tb
								if b == "refresh" {
									tr, tc = tb, ta
								}
								if tc < tr {
									continue
								}
							}
							n++
							id := fmt.Sprintf("%s:%s@%d||%s@%d", kind, a, ta, b, tb)
							c.Explore(id, Pick(c, 2, 3), timerRaceBody(interval, timedOp{a, ta}, timedOp{b, tb}, 7))
							if n%5 == 1 {
								c.Sample(id)
							}
						}
					}
				}
			}
			c.Res.Distinct = int64(n)
			c.Note("pairs of concurrent operations at instants before/at the due instant (and at the 2nd tick for intervals), all interleavings with the timer goroutine up to the preemption bound")
		})
		// three concurrent operations, all of them at instants at which the timer is due (so that
		// each of them races the timer goroutine as well as the other two); cancel-before-refresh excluded
		register("C19", "race3/"+kind, false, func(c *Ctx) {
			ops3 := []string{"stop", "refresh"}
			ats := []int{2}
			if interval {
				ats = []int{2, 4}
			}
			n := 0
			for i, a := range ops3 {
				for j, b := range ops3[i:] {
					for _, d := range ops3[i+j:] {
						for _, ta := range ats {
							for _, tb := range ats {
								for _, td := range ats {
									tr := []timedOp{{a, ta}, {b, tb}, {d, td}}
									ok := true
									for _, p := range tr {
										for _, q := range tr {
											if p.op == "refresh" && q.op != "refresh" && q.at < p.at {
												ok = false // refresh after cancel: unspecified
											}
										}
									}
									if (a == b && tb < ta) || (b == d && td < tb) || !ok {
										continue
									}
									n++
									id := fmt.Sprintf("%s:%s@%d||%s@%d||%s@%d", kind, a, ta, b, tb, d, td)
									c.Explore(id, Pick(c, 2, 3), timerRaceBodyN(interval, tr, 7))
									if n%7 == 1 {
										c.Sample(id)
									}
								}
							}
						}
					}
				}
			}
			c.Res.Distinct = int64(n)
			c.Note("triples of concurrent Stop/Refresh operations issued at due instants, all interleavings with the timer goroutine(s) up to the preemption bound")
		})
	}
}

// Operations issued from inside the timer's own callback (the clearInterval-in-callback
// idiom), and a cancellation issued while a callback is still running.
func timerCallbackBody(interval bool, op string, atTick int, slowCb bool) vsched.Body {
	what := fmt.Sprintf("%s: %s from its own callback at tick %d", kindName(interval), op, atTick)
	if slowCb {
		what = fmt.Sprintf("%s: %s from another goroutine while callback %d is running", kindName(interval), op, atTick)
	}
	fp := fmt.Sprintf("%s %s-in-callback", kindName(interval), op)
	if slowCb {
		fp = fmt.Sprintf("%s %s-during-callback", kindName(interval), op)
	}
	return func(x *vsched.Exec) {
		var cbs []int
		var tm *utils.Timer
		returned := 0
		gate := make(chan struct{})
		inCb := false
		do := func() {
			switch op {
			case "stop":
				tm.Stop()
			case "clear":
				utils.ClearTimeout(tm)
			case "refresh":
				tm.Refresh()
			}
			returned++
		}
		cb := func() {
			cbs = append(cbs, int(x.Now()/tUnit))
			if len(cbs) == atTick {
				if slowCb {
					inCb = true
					vsched.Recv(gate) // the callback is still running while the other goroutine cancels
					inCb = false
				} else {
					do()
				}
			}
		}
		vsched.GoNamed("set", func() {
			if interval {
				tm = utils.SetInterval(cb, tPeriod*tUnit)
			} else {
				tm = utils.SetTimeout(cb, tPeriod*tUnit)
			}
		})
		x.Settle()
		if slowCb {
			vsched.GoNamed("other", func() {
				vsched.SleepUntil(time.Duration(atTick*tPeriod) * tUnit)
				vsched.WaitFor(0, "wait-callback-running", func() bool { return inCb })
				if op == "refresh+stop" {
					// refreshed while the callback runs, cancelled one unit later (before the new due instant)
					tm.Refresh()
					vsched.Close(gate)
					vsched.Sleep(tUnit)
					tm.Stop()
					returned++
					return
				}
				do()
				vsched.Close(gate)
			})
		}
		end := atTick*tPeriod + 3*tPeriod
		x.Run(time.Duration(end) * tUnit)
		if returned != 1 {
			x.Fail("op-blocked["+fp+"]: the operation did not return (%s) blocked=%v", what, x.Blocked())
		}
		// reference: callbacks at every period up to the op; afterwards by the op's meaning
		ref := &refTimer{interval: interval, due: tPeriod}
		for t := 0; t <= end; t++ {
			if ref.due == t {
				ref.fire(t)
				if len(ref.cbs) == atTick {
					ref.apply(op, t)
					if op == "refresh" {
						ref.due = t + tPeriod
					}
					if op == "refresh+stop" {
						ref.due = -1 // refreshed at t, cancelled at t+1, before t+period
					}
				}
			}
		}
		want := map[string]bool{fmt.Sprint(ref.cbs): true}
		timerCheckEnd(x, &cbs, tm, end, want, fp, what)
	}
}

func init() {
	register("C19", "callback", false, func(c *Ctx) {
		n := 0
		for _, interval := range []bool{false, true} {
			for _, op := range []string{"stop", "clear", "refresh", "refresh+stop"} {
				for _, at := range []int{1, 2} {
					if !interval && at > 1 {
						continue
					}
					for _, slow := range []bool{false, true} {
						if slow && op == "refresh" && interval {
							continue // (an interval's callbacks run in goroutines of their own)
						}
						if op == "refresh+stop" && (!slow || interval) {
							continue
						}
						n++
						id := fmt.Sprintf("%s:%s@callback%d slow=%v", kindName(interval), op, at, slow)
						c.Explore(id, Pick(c, 2, 4), timerCallbackBody(interval, op, at, slow))
					}
				}
			}
		}
		c.Res.Distinct = int64(n)
		c.Sample("interval:clear@callback1 slow=false")
		c.Note("Stop / ClearTimeout / Refresh called from the timer's own callback (first or second run), and Stop / ClearTimeout from another goroutine while a callback is still running; the call must return, later callbacks follow the reference, no goroutine left")
	})
}
