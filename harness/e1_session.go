package harness

import (
	"fmt"
	"unsafe"
	"regexp"
	"sort"
	"strings"
	"time"

	"github.com/zishang520/engine.io/v2/config"
	"github.com/zishang520/engine.io/v2/engine"
	"github.com/zishang520/engine.io/v2/transports"
	"github.com/zishang520/engine.io/v2/types"
	"verifrt/vsched"
)

// Session scenarios shared by C03 (lifecycle), C04 (registry), C11 (polling
// discipline): one real session, a set of concurrently started actions (close
// causes, client requests, application calls), every interleaving up to the
// preemption bound, then a sequential epilogue with actions begun after the
// close. Each property evaluates only its own oracle clauses.

const (
	sPingInterval = 25 * time.Second
	sPingTimeout  = 20 * time.Second
)

type sess struct {
	w       *World
	x       *vsched.Exec
	kind    string // polling | polling3 | websocket
	pc      *PollClient
	ws      *WSClient
	wc      *WTClient
	rec     *SockRec
	pending *Resp // outstanding poll of the set-up phase, if any
	causes  map[string]bool
	reqs    []*Resp // requests issued by actions (besides set-up)
	applied []string
	slow    *Resp // data request with a slow upload
	during  *Resp // data request issued during that upload
	after   *Resp // data request issued after an oversized one had been refused
	actor   bool  // a conformant client keeps polling / reading and answers pings
	got     []Pkt // messages the actor received
}

// startActor runs a protocol-conformant client for the rest of the execution.
func (s *sess) startActor() {
	s.actor = true
	if s.pc != nil && s.pc.EIO == 3 {
		// a revision-3 client sends the pings itself
		vsched.GoNamed("actor-pinger", func() {
			for i := 0; i < 8; i++ {
				vsched.Sleep(sPingInterval)
				if s.rec.Count("close") > 0 {
					return
				}
				r := s.pc.Post([]Pkt{{Type: '2'}})
				r.Wait()
			}
		})
	}
	if s.pc != nil {
		vsched.GoNamed("actor", func() {
			s.w.BeginAction()
			for i := 0; i < 60; i++ {
				r := s.pc.Get()
				r.Wait()
				if r.Code != 200 {
					return
				}
				pk, err := s.pc.DecodeResp(r)
				if err != nil {
					return
				}
				for _, p := range pk {
					switch p.Type {
					case '2':
						rr := s.pc.Post([]Pkt{{Type: '3'}})
						rr.Wait()
					case '1':
						return
					case '4':
						s.got = append(s.got, p)
					}
				}
			}
		})
		return
	}
	if s.wc != nil {
		vsched.GoNamed("actor", func() {
			s.w.BeginAction()
			seen := 0
			fs := s.wc.Stream
			for i := 0; i < 200; i++ {
				vsched.WaitFor(uintptr(unsafe.Pointer(fs)), "actor-read", func() bool { return len(fs.out) > s.wc.parsed || fs.closed || s.wc.Closed() })
				pk, _ := s.wc.Pkts()
				for _, q := range pk[seen:] {
					switch q.Type {
					case '2':
						s.wc.SendPkt(Pkt{Type: '3'})
					case '4':
						s.got = append(s.got, q)
					}
				}
				seen = len(pk)
				if fs.closed || s.wc.Closed() {
					return
				}
			}
		})
		return
	}
	vsched.GoNamed("actor", func() {
		s.w.BeginAction()
		seen := 0
		p := s.ws.pipe()
		for i := 0; i < 200; i++ {
			vsched.WaitFor(uintptr(unsafe.Pointer(p)), "actor-read", func() bool { return len(p.toCli) > p.cliRead || p.srvClosed })
			pk, _ := s.ws.Pkts()
			for _, q := range pk[seen:] {
				switch q.Type {
				case '2':
					s.ws.SendPkt(Pkt{Type: '3'})
				case '4':
					s.got = append(s.got, q)
				}
			}
			seen = len(pk)
			if p.srvClosed {
				return
			}
		}
	})
}

func sessOpts() *config.ServerOptions {
	o := config.DefaultServerOptions()
	o.SetPingInterval(sPingInterval)
	o.SetPingTimeout(sPingTimeout)
	o.SetAllowEIO3(true)
	o.SetTransports(types.NewSet("polling", "websocket", "webtransport"))
	return o
}

// openSessionEIO opens a session of the given kind; websocket sessions use revision 3 when v3.
func openSessionEIO(x *vsched.Exec, w *World, kind string, v3 bool) *sess {
	if kind == "websocket" && v3 {
		return openSessionOpt(x, w, kind, false, 3)
	}
	return openSessionOpt(x, w, kind, false, 4)
}

// open performs the handshake (frozen schedule) and optionally leaves a poll pending.
func openSession(x *vsched.Exec, w *World, kind string, pendingPoll bool) *sess {
	return openSessionOpt(x, w, kind, pendingPoll, 4)
}

func openSessionOpt(x *vsched.Exec, w *World, kind string, pendingPoll bool, wsEIO int) *sess {
	s := &sess{w: w, x: x, kind: kind, causes: map[string]bool{}}
	x.Frozen = true
	defer func() { x.Frozen = false }()
	switch kind {
	case "polling", "polling3":
		eio := 4
		if kind == "polling3" {
			eio = 3
		}
		s.pc = &PollClient{W: w, EIO: eio}
		r := s.pc.Get()
		x.Settle()
		pk, err := s.pc.DecodeResp(r)
		if err != nil || len(pk) == 0 {
			x.Fail("setup: handshake failed: %v %d %s", err, r.Code, bodyPreview(r.Body))
			return nil
		}
		open, err := ParseOpen(pk[0])
		if err != nil {
			x.Fail("setup: %v", err)
			return nil
		}
		s.pc.Sid, _ = open["sid"].(string)
		if pendingPoll {
			s.pending = s.pc.Get()
			x.Settle()
		}
	case "websocket":
		s.ws = w.DialWS(wsEIO, "", false, false, "")
		x.Settle()
		if !s.ws.Ready() {
			x.Fail("setup: websocket handshake refused: %d", s.ws.Resp.Code)
			return nil
		}
	case "webtransport":
		s.wc = w.DialWT(0)
		s.wc.Handshake()
		x.Settle()
	}
	if len(w.Socks) != 1 {
		x.Fail("setup: %d sessions", len(w.Socks))
		return nil
	}
	s.rec = w.Socks[0]
	return s
}

// closeReason of each cause, as documented.
var causeReason = map[string]string{
	"abort-poll":     "transport error",
	"overlap-poll":   "transport error",
	"overlap-post":   "transport error",
	"close-packet":   "transport close",
	"garbage":        "parse error",
	"close-false":    "forced close",
	"close-true":     "forced close",
	"send-cb-close-true":  "forced close",
	"send-cb-close-false": "forced close",
	"server-close":   "forced close",
	"ws-drop":        "transport close",
	"wt-drop":        "transport close",
	"wt-garbage":     "parse error",
	"ws-close-frame": "transport close",
	"ws-garbage":     "parse error",
	"ws-close-pkt":   "transport close",
}

// action bodies; each runs in its own root thread.
func (s *sess) action(name string) func() {
	w := s.w
	switch name {
	case "abort-poll":
		return func() {
			if s.pending != nil {
				s.pending.Abort()
			}
		}
	case "overlap-poll", "poll":
		return func() { s.reqs = append(s.reqs, s.pc.Get()) }
	case "close-packet":
		return func() { s.reqs = append(s.reqs, s.pc.Post([]Pkt{{Type: '1'}})) }
	case "garbage":
		return func() { s.reqs = append(s.reqs, s.pc.PostRaw([]byte("zzz"), "text/plain;charset=UTF-8")) }
	case "post-msg":
		return func() { s.reqs = append(s.reqs, s.pc.Post([]Pkt{Msg("c1"), Msg("c2")})) }
	case "overlap-post":
		return func() { s.reqs = append(s.reqs, s.pc.Post([]Pkt{Msg("d1")})) }
	case "slow-post":
		// a data request whose body is still being uploaded between t+0 and t+1s
		return func() {
			body, ct := s.pc.EncodeBody([]Pkt{Msg("u1")})
			r := w.Request("POST", s.pc.url(true), ReqOpt{Hdr: map[string]string{"Content-Type": ct}, Body: body, SlowUntil: s.x.Now() + time.Second})
			s.slow = r
			s.reqs = append(s.reqs, r)
		}
	case "post-during-upload":
		// a second data request issued while the first one's upload is in progress
		return func() {
			vsched.Sleep(500 * time.Millisecond)
			r := s.pc.Post([]Pkt{Msg("d1")})
			s.during = r
			s.reqs = append(s.reqs, r)
		}
	case "oversized-post-during-upload":
		// the same, but the second request announces a body above the maximum payload size: it is an
		// overlapping data request all the same
		return func() {
			vsched.Sleep(500 * time.Millisecond)
			body, ct := s.pc.EncodeBody([]Pkt{Msg("d1")})
			r := w.Request("POST", s.pc.url(true), ReqOpt{Hdr: map[string]string{"Content-Type": ct}, Body: body, DeclLen: 50_000_000})
			s.during = r
			s.reqs = append(s.reqs, r)
		}
	case "oversized-post-then-post":
		// a data request announcing a body above the limit is refused (413); the session's next data request,
		// strictly afterwards, is an ordinary one
		return func() {
			body, ct := s.pc.EncodeBody([]Pkt{Msg("big")})
			r := w.Request("POST", s.pc.url(true), ReqOpt{Hdr: map[string]string{"Content-Type": ct}, Body: body, DeclLen: 50_000_000})
			s.reqs = append(s.reqs, r)
			r.Wait()
			r.WaitReturn()
			s.after = s.pc.Post([]Pkt{Msg("next")})
			s.reqs = append(s.reqs, s.after)
		}
	case "repoll":
		// the client's next poll, issued as soon as the pending one has come back (or was given up)
		return func() {
			if s.pending != nil {
				s.pending.Wait()
			}
			s.reqs = append(s.reqs, s.pc.Get())
		}
	case "close-false":
		return func() { s.rec.Sock.Close(false) }
	case "close-true":
		return func() { s.rec.Sock.Close(true) }
	case "server-close":
		return func() { w.Srv.Close() }
	case "send":
		return func() { s.rec.Sock.Send(types.NewStringBufferString("s1"), nil, nil) }
	case "send-cb-close-true", "send-cb-close-false":
		// the application closes the session from the callback of one of its own sends
		return func() {
			discard := name == "send-cb-close-true"
			s.rec.Sock.Send(types.NewStringBufferString("bye"), nil, func(transports.Transport) { s.rec.Sock.Close(discard) })
		}
	case "send2":
		return func() {
			s.rec.Sock.Send(types.NewStringBufferString("t1"), nil, nil)
			s.rec.Sock.Send(types.NewStringBufferString("t2"), nil, nil)
		}
	case "wt-drop":
		return func() { s.wc.Stream.PeerClose() }
	case "wt-garbage":
		return func() { s.wc.SendRaw(wtEncode(wtMsg{false, []byte("zzz")}, 0)) }
	case "wt-msg":
		return func() { s.wc.SendPkt(Msg("c1")) }
	case "ws-drop":
		return func() { s.ws.Drop() }
	case "ws-close-frame":
		return func() { s.ws.SendClose(1000, "") }
	case "ws-garbage":
		return func() { s.ws.SendFrame(1, []byte("zzz")) }
	case "ws-close-pkt":
		return func() { s.ws.SendPkt(Pkt{Type: '1'}) }
	case "ws-msg":
		return func() { s.ws.SendPkt(Msg("c1")) }
	}
	panic("unknown action " + name)
}

func (s *sess) isCause(name string) bool { _, ok := causeReason[name]; return ok }

// applicable: does the cause actually bear on this set-up?
func (s *sess) effective(name string) bool {
	switch name {
	case "abort-poll":
		return s.pending != nil
	case "overlap-poll":
		return s.pending != nil
	}
	return true
}

// run starts the actions concurrently and explores; then the epilogue.
func (s *sess) run(actions []string) {
	w, x := s.w, s.x
	for _, a := range actions {
		a := a
		f := s.action(a)
		vsched.GoNamed("act:"+a, func() {
			w.BeginAction()
			f()
		})
	}
	x.Run(x.Now() + 10*time.Second)
	// epilogue, sequential: things begun after whatever happened
	x.Frozen = true
	closedBefore := s.rec.Count("close") > 0
	w.EpilogueFrom = len(w.Events)
	vsched.GoNamed("epilogue-send", func() {
		w.BeginAction()
		s.rec.Sock.Send(types.NewStringBufferString("late"), nil, nil)
	})
	x.Settle()
	if s.pc != nil && closedBefore {
		r := s.pc.Post([]Pkt{Msg("late-client")})
		x.Settle()
		s.w.LateReqs = append(s.w.LateReqs, r)
		r2 := s.pc.Get()
		x.Settle()
		s.w.LateReqs = append(s.w.LateReqs, r2)
	}
	if s.ws != nil && closedBefore {
		s.ws.SendPkt(Msg("late-client"))
		x.Settle()
	}
	if s.wc != nil && closedBefore {
		s.wc.SendPkt(Msg("late-client"))
		x.Settle()
	}
	// let every timer run out: heartbeat closes a silent session at the latest
	x.Run(x.Now() + 100*time.Second)
}

// allowedReasons: the documented reasons of the injected causes, including the
// causes that arise from combinations (two outstanding requests of one kind is
// an overlap; an application close aborts a data request in flight, which the
// transport reports as its error - upstream Engine.IO behaves the same).
func (s *sess) allowedReasons(actions []string, at time.Duration) map[string]bool {
	allowed := map[string]bool{}
	posts, polls, appClose, peerGone := 0, 0, false, false
	if s.pending != nil {
		polls++
	}
	for _, a := range actions {
		if r, ok := causeReason[a]; ok && s.effective(a) {
			allowed[r] = true
		}
		switch a {
		case "close-packet", "garbage", "post-msg", "overlap-post", "slow-post", "post-during-upload", "oversized-post-during-upload":
			posts++
		case "poll", "overlap-poll":
			polls++
		case "close-false", "close-true", "server-close":
			appClose = true
		case "ws-drop", "ws-close-frame", "wt-drop":
			peerGone = true
		}
	}
	// a write that meets a connection the peer has already closed is reported by the
	// transport as its error
	if posts >= 2 || polls >= 2 || (posts >= 1 && appClose) || peerGone {
		allowed["transport error"] = true
	}
	if at >= sPingInterval+sPingTimeout && !s.actor {
		allowed["ping timeout"] = true
	}
	return allowed
}

var stateRank = map[string]int{"opening": 0, "open": 1, "closing": 2, "closed": 3}

// oracleLifecycle: C03.
func (s *sess) oracleLifecycle(actions []string) {
	x, rec, w := s.x, s.rec, s.w
	fp := "[" + s.kind + " " + strings.Join(sortedStrings(actions), "+") + "]"
	if rec.Events[0].Name != "connection" || rec.Events[0].State != "open" {
		x.Fail("connection-state%s: session handed to the application in state %q", fp, rec.Events[0].State)
	}
	last := 0
	for _, e := range rec.Events {
		r, ok := stateRank[e.State]
		if !ok {
			x.Fail("state-unknown%s: %q at %s", fp, e.State, e)
			continue
		}
		if r < last {
			x.Fail("state-backwards%s: ready state went back to %q at event %s", fp, e.State, e)
		}
		last = r
	}
	if r := stateRank[rec.Sock.ReadyState()]; r < last {
		x.Fail("state-backwards%s: final ready state %q after %d", fp, rec.Sock.ReadyState(), last)
	}
	closes := rec.CloseReasons()
	if len(closes) > 1 {
		x.Fail("close-twice%s: %d close events %v", fp, len(closes), closes)
	}
	if len(closes) == 0 && s.actor && len(s.allowedReasons(actions, 0)) == 0 {
		// responsive client, no close cause: the session must still be open
		if st := rec.Sock.ReadyState(); st != "open" {
			x.Fail("not-open-without-cause%s: state %q at t=%v with a responsive client and no close cause", fp, st, x.Now())
		}
		return
	}
	if len(closes) == 0 {
		x.Fail("never-closed%s: no close event by t=%v although the peer was silent past the heartbeat deadline; state=%s", fp, x.Now(), rec.Sock.ReadyState())
		return
	}
	// reason must be the documented reason of an injected cause (or heartbeat expiry, not before its deadline)
	ci := -1
	for i, e := range rec.Events {
		if e.Name == "close" {
			ci = i
			break
		}
	}
	ce := rec.Events[ci]
	allowed := s.allowedReasons(actions, ce.At)
	if !allowed[closes[0]] {
		// fingerprint: the reason obtained and the injected causes / server writes it raced with
		// (other neutral traffic left out, so that supersets of a failing pair map to the same class)
		var with []string
		seen := map[string]bool{}
		for _, a := range actions {
			if a == "send2" {
				a = "send"
			}
			if (s.isCause(a) || a == "send") && !seen[a] {
				seen[a] = true
				with = append(with, a)
			}
		}
		sort.Strings(with)
		late := ""
		if ce.At >= 30*time.Second {
			late = " late"
		}
		x.Fail("close-reason[%s got=%q%s with=%s]: closed with %q at %v, injected causes allow %v (actions %v)", s.kind, closes[0], late, strings.Join(with, "+"), closes[0], ce.At, sortedKeys(allowed), actions)
	}
	if ce.State != "closed" {
		x.Fail("close-state%s: close event fired in state %q", fp, ce.State)
	}
	// silence after close
	for _, e := range rec.Events[ci+1:] {
		if e.Name == "close" {
			continue // reported above
		}
		act, ok := w.actionOf(e.Thread)
		if ok && e.At == ce.At && act <= ce.Seq && e.Seq < w.EpilogueFrom {
			continue // continuation, at the same instant, of an action begun before the close
		}
		x.Fail("event-after-close%s[%s]: %s after close(%s at %v) by thread %s", fp, e.Name, e, closes[0], ce.At, e.Thread)
	}
}

// oracleRegistry: C04, final-state part (the quiescent-point part is installed by watchRegistry).
func (s *sess) oracleRegistry(actions []string) {
	x, w := s.x, s.w
	fp := "[" + s.kind + " " + strings.Join(sortedStrings(actions), "+") + "]"
	w.checkRegistry(fp + "[end]")
	for _, r := range w.LateReqs {
		if !r.Returned {
			x.Fail("late-request-stuck%s: request %s naming a closed session never returned", fp, r.Desc)
			continue
		}
		if r.Code != 400 || !strings.Contains(string(r.Body), `"code":1`) {
			x.Fail("closed-sid-answer%s: request %s naming a closed session answered %d %s, expected 400 code 1 (Session ID unknown)", fp, r.Desc, r.Code, bodyPreview(r.Body))
		}
	}
}

var sidRe = regexp.MustCompile(`^[A-Za-z0-9_-]+$`)

// checkRegistry compares table, count and live sessions (called at quiescent points).
func (w *World) checkRegistry(fp string) {
	x := w.X
	keys := map[string]bool{}
	w.Srv.Clients().Range(func(id string, s engine.Socket) bool {
		keys[id] = true
		if s.ReadyState() == "closed" {
			x.Fail("closed-session-reachable%s: a session is closed but still in the client table", fp)
		}
		if s.Id() != id {
			x.Fail("registry-key%s: key %s holds session %s", fp, id, s.Id())
		}
		if !sidRe.MatchString(id) {
			x.Fail("sid-not-url-safe%s: %q", fp, id)
		}
		return true
	})
	n := w.Srv.ClientsCount()
	if n != uint64(len(keys)) {
		x.Fail("registry-count%s: ClientsCount()=%d, table has %d entries", fp, n, len(keys))
	}
	for _, rec := range w.Socks {
		st := rec.Sock.ReadyState()
		if st != "closed" && !keys[rec.Id] {
			x.Fail("live-session-unreachable%s: session #%d (state %s) not in the client table", fp, rec.Index, st)
		}
	}
}

// oraclePolling: C11.
func (s *sess) oraclePolling(actions []string) {
	x, w := s.x, s.w
	fp := "[" + s.kind + " " + strings.Join(sortedStrings(actions), "+") + "]"
	closed := s.rec.Count("close") > 0
	for _, r := range w.Resps {
		if r.Conn != nil {
			continue
		}
		if r.HeaderCalls > 1 {
			x.Fail("two-responses%s: %s got %d WriteHeader calls", fp, r.Desc, r.HeaderCalls)
		}
		if !r.Returned {
			if closed {
				x.Fail("request-never-answered%s: handler of %s still blocked although the session is closed: %v", fp, kindOf(r), x.Blocked())
			}
			continue
		}
		if !r.wrote && !r.aborted {
			x.Fail("no-response%s: handler of %s returned without writing a response", fp, kindOf(r))
		}
	}
	// overlap: a second request of a kind while one is outstanding => 400 + transport error.
	// Asserted from what is certain whatever the schedule: with a poll pending from the set-up,
	// an injected second poll must be answered 400 and the session closed with transport error.
	if s.pending != nil && has(actions, "overlap-poll") {
		for _, r := range s.reqs {
			if strings.HasPrefix(r.Desc, "GET") && r.Returned && s.pendingAnsweredAfter(r) {
				if r.Code != 400 {
					x.Fail("overlap-not-refused%s: second poll while the first was outstanding answered %d", fp, r.Code)
				}
			}
		}
	}
	// a data request arriving while another one's body is still being uploaded is an overlap
	if s.slow != nil && s.during != nil && s.slow.BodyRead.Started && s.slow.BodyRead.Read_ >= 0 {
		// certain overlap only if the upload had begun before the second request was issued:
		// the second one is issued at +500ms, the upload blocks from its first read until +1s
		if s.during.Returned && s.during.Code != 400 && !closedBeforeSeq(s.rec, s.during.WroteSeq) {
			x.Fail("overlap-not-refused%s: data request issued while another one's upload was in progress answered %d %s", fp, s.during.Code, bodyPreview(s.during.Body))
		}
		if len(s.rec.CloseReasons()) > 0 && s.rec.CloseReasons()[0] != "transport error" && len(actions) == 2 {
			x.Fail("overlap-close-reason%s: session closed with %q after overlapping data requests", fp, s.rec.CloseReasons()[0])
		}
	}
	if s.after != nil && len(actions) == 1 {
		// (the silent client is closed by the heartbeat later on: only an overlap-style closure is wrong)
		if cr := s.rec.CloseReasons(); !s.after.wrote || s.after.Code != 200 || (len(cr) > 0 && cr[0] == "transport error") {
			x.Fail("post-after-refused-oversized%s: the data request following a refused oversized one was answered %d, session %s %v", fp, s.after.Code, s.rec.Sock.ReadyState(), s.rec.CloseReasons())
		}
	}
	// ok only after all packets of the payload were processed
	for _, r := range w.Resps {
		if strings.HasPrefix(r.Desc, "POST") && r.Code == 200 && string(r.Body) == "ok" {
			if exp, okk := w.PostMsgs[r]; okk {
				got := 0
				for _, e := range s.rec.Events {
					if e.Name == "message" && e.Seq < r.WroteSeq {
						for _, m := range exp {
							if string(e.Pkts[0].Data) == m {
								got++
							}
						}
					}
				}
				// asserted only for histories in which the session stayed open throughout
				// (packets reaching a session that is no longer open are dropped, by C02)
				if got < len(exp) && s.rec.Count("close") == 0 && s.rec.Sock.ReadyState() == "open" {
					x.Fail("ok-before-processing%s: %s acknowledged with ok after %d of %d message events", fp, kindOf(r), got, len(exp))
				}
			}
		}
	}
}

func closedBeforeSeq(rec *SockRec, seq int) bool {
	for _, e := range rec.Events {
		if e.Name == "close" && e.Seq < seq {
			return true
		}
	}
	return false
}

// pendingAnsweredAfter: the set-up poll was still outstanding when r was answered.
func (s *sess) pendingAnsweredAfter(r *Resp) bool {
	return s.pending != nil && (!s.pending.wrote || s.pending.WroteSeq > r.WroteSeq) && !s.pending.aborted
}

func kindOf(r *Resp) string {
	d := r.Desc
	if i := strings.Index(d, "?"); i > 0 {
		d = d[:i]
	}
	return d
}

type sessCase struct {
	kind    string
	pending bool
	actions []string
	actor   bool
}

func (c sessCase) id() string {
	if c.actor {
		return fmt.Sprintf("%s actor %s", c.kind, strings.Join(c.actions, "+"))
	}
	return fmt.Sprintf("%s pending=%v %s", c.kind, c.pending, strings.Join(c.actions, "+"))
}

func sessBody(c sessCase, oracle string) vsched.Body {
	return func(x *vsched.Exec) {
		w := NewWorld(x, sessOpts())
		if oracle == "C04" {
			x.OnQuiescent = func() { w.checkRegistry("[" + c.kind + " " + strings.Join(sortedStrings(c.actions), "+") + "][quiescent]") }
		}
		s := openSession(x, w, c.kind, c.pending)
		if s == nil {
			return
		}
		if c.actor {
			s.startActor()
		}
		s.run(c.actions)
		switch oracle {
		case "C03":
			s.oracleLifecycle(c.actions)
		case "C04":
			s.oracleRegistry(c.actions)
		case "C11":
			s.oraclePolling(c.actions)
		}
		if len(x.Panics()) > 0 {
			for _, t := range x.Panics() {
				x.Fail("panic[%s]: thread %s panicked: %v", c.kind, t.Name, t.Panic)
			}
		}
		x.Outcome = fmt.Sprintf("close=%v state=%s", s.rec.CloseReasons(), s.rec.Sock.ReadyState())
	}
}

// sessCases enumerates set-ups x action sets.
func sessCases(thorough bool) []sessCase {
	var out []sessCase
	pollCauses := []string{"abort-poll", "overlap-poll", "close-packet", "garbage", "close-false", "close-true", "server-close"}
	pollNeutral := []string{"send", "post-msg", "poll"}
	wsCauses := []string{"ws-drop", "ws-close-frame", "ws-garbage", "ws-close-pkt", "close-false", "close-true", "server-close"}
	wsNeutral := []string{"send", "ws-msg"}
	add := func(kind string, pending bool, acts ...string) {
		for _, a := range acts {
			if (a == "abort-poll" || a == "overlap-poll") && !pending {
				return
			}
			if a == "poll" && pending {
				return
			}
		}
		out = append(out, sessCase{kind: kind, pending: pending, actions: append([]string(nil), acts...)})
	}
	for _, kind := range []string{"polling", "polling3"} {
		if kind == "polling3" && !thorough {
			continue
		}
		for _, pending := range []bool{true, false} {
			// cause-free histories
			add(kind, pending, "send", "post-msg")
			add(kind, pending, "send2", "poll")
			all := append(append([]string{}, pollCauses...), pollNeutral...)
			for i, a := range pollCauses {
				add(kind, pending, a)
				for _, b := range all[i+1:] {
					add(kind, pending, a, b)
				}
				if a == "close-false" || a == "close-true" {
					add(kind, pending, a, a)
				}
			}
			if thorough {
				for i, a := range pollCauses {
					for j, b := range pollCauses[i+1:] {
						for _, cc := range all[i+j+2:] {
							add(kind, pending, a, b, cc)
						}
					}
				}
			}
		}
	}
	out = append(out, sessCase{kind: "polling", pending: true, actions: []string{"slow-post", "post-during-upload"}})
	out = append(out, sessCase{kind: "polling", pending: false, actions: []string{"slow-post", "post-during-upload"}})
	out = append(out, sessCase{kind: "polling", pending: true, actions: []string{"slow-post", "post-during-upload", "send"}})
	out = append(out, sessCase{kind: "polling", pending: true, actions: []string{"slow-post", "oversized-post-during-upload"}})
	out = append(out, sessCase{kind: "polling", pending: false, actions: []string{"slow-post", "oversized-post-during-upload"}})
	out = append(out, sessCase{kind: "polling", pending: true, actions: []string{"oversized-post-then-post"}})
	out = append(out, sessCase{kind: "polling", pending: false, actions: []string{"oversized-post-then-post"}})
	// the application closes the session from a send callback
	for _, kind := range []string{"polling", "websocket", "webtransport"} {
		for _, a := range []string{"send-cb-close-true", "send-cb-close-false"} {
			out = append(out, sessCase{kind: kind, pending: kind == "polling", actions: []string{a}})
			out = append(out, sessCase{kind: kind, actions: []string{a}, actor: true})
		}
	}
	// the client gives up its pending poll while the application's batch answers it, and polls again at once
	out = append(out, sessCase{kind: "polling", pending: true, actions: []string{"abort-poll", "send", "repoll"}})
	out = append(out, sessCase{kind: "polling", pending: true, actions: []string{"abort-poll", "send2", "repoll"}})
	// a responsive client: heartbeat expiry is then never an acceptable reason
	for _, kind := range []string{"polling", "websocket"} {
		for _, acts := range [][]string{{"send"}, {"send2"}, {"close-false"}, {"send", "close-false"}, {"send2", "close-false"}, {"send2", "close-true"}, {"send", "server-close"}} {
			out = append(out, sessCase{kind: kind, actions: acts, actor: true})
		}
	}
	add("websocket", false, "send", "ws-msg")
	// the peer goes away while a batch of the application is being written (several frames)
	add("websocket", false, "ws-drop", "send2")
	add("websocket", false, "ws-close-frame", "send2")
	add("webtransport", false, "wt-drop", "send2")
	all := append(append([]string{}, wsCauses...), wsNeutral...)
	for i, a := range wsCauses {
		add("websocket", false, a)
		for _, b := range all[i+1:] {
			add("websocket", false, a, b)
		}
	}
	if thorough {
		for i, a := range wsCauses {
			for j, b := range wsCauses[i+1:] {
				for _, cc := range all[i+j+2:] {
					add("websocket", false, a, b, cc)
				}
			}
		}
	}
	// webtransport sessions (through the real session handler)
	wtCauses := []string{"wt-drop", "wt-garbage", "close-false", "close-true", "server-close"}
	wtAll := append(append([]string{}, wtCauses...), "send", "wt-msg")
	add("webtransport", false, "send", "wt-msg")
	for i, a := range wtCauses {
		add("webtransport", false, a)
		for _, b := range wtAll[i+1:] {
			add("webtransport", false, a, b)
		}
	}
	for _, acts := range [][]string{{"send2"}, {"send", "close-false"}, {"send2", "close-true"}} {
		out = append(out, sessCase{kind: "webtransport", actions: acts, actor: true})
	}
	return out
}

func registerSessionUnits(prop string) {
	quick := map[string]bool{}
	for _, sc := range sessCases(false) {
		quick[sc.id()] = true
	}
	for _, sc := range sessCases(true) {
		sc := sc
		if prop == "C09" {
			fault := false
			for _, a := range sc.actions {
				switch a {
				case "ws-drop", "ws-close-frame", "ws-garbage", "wt-drop", "wt-garbage", "abort-poll", "garbage", "overlap-poll":
					fault = true
				}
			}
			if !fault || len(sc.actions) != 2 {
				continue
			}
		}
		register(prop, "session/"+strings.ReplaceAll(sc.id(), " ", "_"), !quick[sc.id()], func(c *Ctx) {
			bound := Pick(c, 2, 3)
			if len(sc.actions) > 2 || sc.actor {
				bound = Pick(c, 1, 2)
			}
			maxDev := Pick(c, 4, 6)
			c.ExploreDev(sc.id(), bound, maxDev, sessBody(sc, prop))
			c.Sample(sc.id())
			c.Res.Distinct = 1
			c.Note("one %s session (poll pending=%v); actions %v started concurrently, every interleaving with at most %d preemption(s) and at most %d context switches off the default schedule, explored with dynamic partial-order reduction (branching at race sources and at the start of the racing thread's run); epilogue with actions begun after the close; run to t=110s virtual", sc.kind, sc.pending, sc.actions, bound, maxDev)
		})
	}
}

func init() {
	registerSessionUnits("C03")
	registerSessionUnits("C04")
	registerSessionUnits("C11")
	// C09: the histories in which the peer misbehaves or disappears, under "no thread panics" only
	registerSessionUnits("C09")
}

var _ = sort.Strings
