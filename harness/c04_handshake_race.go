package harness

import (
	"fmt"
	"strings"
	"time"
	"unsafe"

	"github.com/zishang520/engine.io/v2/engine"
	"github.com/zishang520/engine.io/v2/types"
	"verifrt/vsched"
)

// Sessions that die while their handshake is still being completed (C03/C04):
// the peer disconnects, or the application closes the session from its
// connection handler, while Handshake is between constructing the session,
// registering it and registering its close listener.

type hsRace struct {
	kind  string // websocket | polling | webtransport
	cause string // peer-drop | peer-garbage | peer-close-frame | abort-request | app-close-true | app-close-false | server-close | none
}

func (h hsRace) id() string { return h.kind + " " + h.cause }

func hsRaceBody(h hsRace, prop string) vsched.Body {
	return func(x *vsched.Exec) {
		w := NewWorld(x, sessOpts())
		w.Srv.Opts().SetTransports(types.NewSet("polling", "websocket", "webtransport"))
		fp := "[handshake " + h.id() + "]"
		if prop == "C04" {
			x.OnQuiescent = func() { w.checkRegistry(fp + "[quiescent]") }
		}
		switch h.cause {
		case "app-close-true":
			w.OnConnection = func(s *SockRec) { s.Sock.Close(true) }
		case "app-close-false":
			w.OnConnection = func(s *SockRec) { s.Sock.Close(false) }
		}
		var ws *WSClient
		var wc *WTClient
		var req *Resp
		switch h.kind {
		case "websocket":
			ws = w.DialWS(4, "", false, false, "")
			req = ws.Resp
			vsched.GoNamed("peer", func() {
				w.BeginAction()
				r := ws.Resp
				vsched.WaitFor(uintptr(unsafe.Pointer(r)), "peer-wait-open", func() bool { return r.Conn != nil || r.wrote || r.Returned })
				if r.Conn == nil {
					return
				}
				switch h.cause {
				case "peer-drop":
					ws.Drop()
				case "peer-garbage":
					ws.SendFrame(1, []byte("zzz"))
				case "peer-close-frame":
					ws.SendClose(1000, "")
				}
			})
		case "webtransport":
			wc = w.DialWT(0)
			wc.Handshake()
			vsched.GoNamed("peer", func() {
				w.BeginAction()
				switch h.cause {
				case "peer-drop":
					wc.Stream.PeerClose()
				case "peer-garbage":
					wc.SendRaw(wtEncode(wtMsg{false, []byte("zzz")}, 0))
				}
			})
		case "polling":
			pc := &PollClient{W: w, EIO: 4}
			req = pc.Get()
			if h.cause == "abort-request" {
				vsched.GoNamed("peer", func() { w.BeginAction(); req.Abort() })
			}
		}
		if h.cause == "server-close" {
			vsched.GoNamed("act:server-close", func() { w.BeginAction(); w.Srv.Close() })
		}
		x.Run(x.Now() + time.Second)
		x.Frozen = true
		if prop == "C12" {
			// shutdown right after the raced handshake: every session closed once, table empty at once
			vsched.GoNamed("act:shutdown", func() { w.BeginAction(); w.Srv.Close() })
			x.Run(x.Now() + time.Second)
			n := 0
			w.Srv.Clients().Range(func(string, engine.Socket) bool { n++; return true })
			if c := w.Srv.ClientsCount(); c != 0 || n != 0 {
				x.Fail("table-not-empty%s: after Server.Close the client table holds %d sessions, ClientsCount=%d", fp, n, c)
			}
			for _, s := range w.Socks {
				if k := s.Count("close"); k == 0 && s.Sock.ReadyState() == "closed" {
					// (the residual window of the C03 finding: closed before the application's listener existed)
					x.Fail("close-event-missed[handshake]: the session is closed but the application saw no close event (%s)", h.id())
				} else if k != 1 {
					x.Fail("close-count%s: %d close events %v after Server.Close (state %s)", fp, k, s.CloseReasons(), s.Sock.ReadyState())
				}
			}
			for _, t := range x.Panics() {
				x.Fail("panic%s: thread %s: %v", fp, t.Name, t.Panic)
			}
			x.Outcome = fmt.Sprintf("sessions=%d", len(w.Socks))
			return
		}
		x.Run(x.Now() + 100*time.Second) // past every heartbeat deadline
		for _, t := range x.Panics() {
			x.Fail("panic%s: thread %s: %v\n%s", fp, t.Name, t.Panic, trimStack(t.Stack))
		}
		if prop == "C04" {
			w.checkRegistry(fp + "[end]")
			// whatever happened, nothing may be left: the peer never answers a ping
			if n := w.Srv.ClientsCount(); n != 0 {
				x.Fail("registry-leftover%s: ClientsCount=%d at t=%v although every peer has been silent past the heartbeat deadline", fp, n, x.Now())
			}
			for _, s := range w.Socks {
				if s.Sock.ReadyState() == "closed" {
					r := (&PollClient{W: w, EIO: 4, Sid: s.Id}).Get()
					x.Run(x.Now() + time.Second)
					if !r.wrote || r.Code != 400 || !strings.Contains(string(r.Body), `"code":1`) {
						x.Fail("closed-session-answered%s: a request naming the closed session was answered %d %s", fp, r.Code, bodyPreview(r.Body))
					}
					u := w.DialWS(4, s.Id, false, false, "")
					x.Run(x.Now() + time.Second)
					if u.Resp.Conn != nil || !u.Resp.wrote || u.Resp.Code != 400 || !strings.Contains(string(u.Resp.Body), `"code":1`) {
						x.Fail("closed-session-answered%s: a websocket upgrade request naming the closed session was answered %d %s (connection taken over: %v)", fp, u.Resp.Code, bodyPreview(u.Resp.Body), u.Resp.Conn != nil)
					}
				}
			}
		} else {
			for _, s := range w.Socks {
				if s.Events[0].Name != "connection" || (s.Events[0].State != "open" && !strings.HasPrefix(h.cause, "app-")) {
					x.Fail("connection-state[handshake]: session handed to the application in state %q (%s)", s.Events[0].State, h.id())
				}
				if n := s.Count("close"); n != 1 {
					if n == 0 && s.Sock.ReadyState() == "closed" {
						x.Fail("close-event-missed[handshake]: the session is closed but the application saw no close event (%s)", h.id())
					} else {
						x.Fail("close-count%s: %d close events %v by t=%v (state %s)", fp, n, s.CloseReasons(), x.Now(), s.Sock.ReadyState())
					}
				}
				last := 0
				for _, e := range s.Events {
					if r := stateRank[e.State]; r < last {
						x.Fail("state-backwards%s: %s", fp, e)
					} else {
						last = r
					}
				}
			}
			if req != nil && req.Conn == nil && !req.Returned {
				x.Fail("handshake-request-stuck%s: the handshake request was never answered", fp)
			}
		}
		var cr []string
		for _, s := range w.Socks {
			cr = append(cr, strings.Join(s.CloseReasons(), "/"))
		}
		x.Outcome = fmt.Sprintf("sessions=%d close=%v", len(w.Socks), cr)
	}
}

func init() {
	for _, prop := range []string{"C03", "C04", "C12"} {
		prop := prop
		for _, h := range []hsRace{
			{"websocket", "peer-drop"}, {"websocket", "peer-garbage"}, {"websocket", "peer-close-frame"}, {"websocket", "app-close-true"}, {"websocket", "app-close-false"}, {"websocket", "server-close"}, {"websocket", "none"},
			{"webtransport", "peer-drop"}, {"webtransport", "peer-garbage"}, {"webtransport", "app-close-true"}, {"webtransport", "none"},
			{"polling", "abort-request"}, {"polling", "app-close-true"}, {"polling", "app-close-false"}, {"polling", "server-close"}, {"polling", "none"},
		} {
			h := h
			if prop == "C12" && (strings.HasPrefix(h.cause, "app-") || h.cause == "server-close") {
				continue
			}
			register(prop, "handshake-race/"+h.id(), false, func(c *Ctx) {
				c.ExploreDev(h.id(), Pick(c, 1, 2), Pick(c, 3, 5), hsRaceBody(h, prop))
				c.Sample(h.id())
				c.Res.Distinct = 1
				c.Note("a %s handshake racing %q: every interleaving of the handler, the transport's reader goroutine and the peer / application with <=%d preemptions; then 100s of silence", h.kind, h.cause, Pick(c, 1, 2))
			})
		}
	}
}
