package harness

import (
	"net/http"
	"net/http/httptest"
	"testing"
	"time"

	"github.com/zishang520/engine.io/v2/config"
	"github.com/zishang520/engine.io/v2/engine"
	"github.com/zishang520/engine.io/v2/types"
	"verifrt/vsched"
)

func TestSmoke(t *testing.T) {
	res := vsched.RunOnce(t, nil, nil, vsched.Options{Tracing: true}, func(x *vsched.Exec) {
		opts := config.DefaultServerOptions()
		opts.SetPingInterval(3 * time.Second)
		opts.SetPingTimeout(2 * time.Second)
		srv := engine.NewServer(opts)
		srv.On("connection", func(a ...any) {
			s := a[0].(engine.Socket)
			t.Logf("connection %s at %v", s.Id(), x.Now())
			s.On("close", func(a ...any) { t.Logf("close %v at %v", a[0], x.Now()) })
		})
		rec := httptest.NewRecorder()
		req := httptest.NewRequest("GET", "/engine.io/?EIO=4&transport=polling", nil)
		vsched.GoNamed("handshake", func() { srv.ServeHTTP(rec, req) })
		x.Settle()
		t.Logf("status %d body %q", rec.Code, rec.Body.String())
		x.Advance(10 * time.Second)
		t.Logf("blocked: %v", x.Blocked())
		_ = http.StatusOK
		_ = types.NewStringBufferString
	})
	t.Logf("steps=%d choices=%d failures=%v leftover=%d threads=%d", res.Steps, len(res.Trace), res.Failures, res.Leftover, res.Threads)
	for _, s := range res.StepTrace {
		t.Logf("%+v", s)
	}
}
