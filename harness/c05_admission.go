package harness

import (
	"time"
	"encoding/json"
	"errors"
	"fmt"
	"net/http"
	"net/url"
	"strings"

	"github.com/zishang520/engine.io/v2/config"
	"github.com/zishang520/engine.io/v2/engine"
	"github.com/zishang520/engine.io/v2/types"
	"verifrt/vsched"
)

// C05 — routing and admission. E2 product of configurations x request shapes;
// the reference decision function is written from the property statement.

type admCfg struct {
	transports []string
	eio3       bool
	hook       int // 0 none, 1 allows, 2 refuses
	mw         int // 0 none, 1 passes, 2 fails
}

func (c admCfg) String() string {
	return fmt.Sprintf("transports=%s eio3=%v hook=%d mw=%d", strings.Join(c.transports, "+"), c.eio3, c.hook, c.mw)
}

type admReq struct {
	method    string
	transport []string // query values in order (nil = absent)
	sid       string   // "", unknown, polling, websocket, closed
	origin    string   // "", ok, nul, lf
	upgrade   bool
	eio       string // "" absent
}

func (r admReq) String() string {
	return fmt.Sprintf("%s transport=%v sid=%s origin=%s upgrade=%v EIO=%q", r.method, r.transport, r.sid, r.origin, r.upgrade, r.eio)
}

type admOutcome struct {
	reject     bool
	status     int
	code       int
	msg        string
	postAccept bool // refused after the websocket connection was accepted: close frame with msg
	undefined  bool // the statement does not define this cell
}

func (o admOutcome) String() string {
	if o.undefined {
		return "undefined"
	}
	if !o.reject {
		return "admit"
	}
	if o.postAccept {
		return fmt.Sprintf("close-frame %q code %d", o.msg, o.code)
	}
	return fmt.Sprintf("%d {code %d, %q}", o.status, o.code, o.msg)
}

const hookText = "not today"

// the text the application's hook refuses a request with: its own words, different for different requests
func hookTextFor(method, transport string) string {
	return hookText + " (" + method + " " + transport + ")"
}

// admDecide is the reference: first failing check in the documented precedence.
func admDecide(cfg admCfg, r admReq, transport string) admOutcome {
	rej := func(status, code int, msg string) admOutcome {
		return admOutcome{reject: true, status: status, code: code, msg: msg}
	}
	wsEnabled := has(cfg.transports, "websocket")
	upgrade := r.upgrade && wsEnabled // without websocket support an upgrade request is an ordinary request
	if cfg.mw == 2 {
		return rej(400, 3, "Bad request")
	}
	// 1. transport known and enabled (webtransport never travels over an HTTP/1 request)
	if !has(cfg.transports, transport) || transport == "webtransport" {
		return rej(400, 0, "Transport unknown")
	}
	// 2. Origin well-formed
	if r.origin == "nul" || r.origin == "lf" {
		return rej(400, 3, "Bad request")
	}
	if upgrade && transport == "polling" {
		return admOutcome{undefined: true}
	}
	// 3. sid known and bound to the same transport unless upgrading
	switch r.sid {
	case "unknown", "closed":
		return rej(400, 1, "Session ID unknown")
	case "polling", "websocket":
		if !upgrade && r.sid != transport {
			return rej(400, 3, "Bad request")
		}
		if upgrade && r.sid == "websocket" {
			return admOutcome{undefined: true} // candidate for a session that is already on websocket
		}
		return admOutcome{}
	}
	// 4. GET for handshakes
	if r.method != "GET" {
		return rej(400, 2, "Bad handshake method")
	}
	// 5. no plain-HTTP handshake for websocket
	if transport == "websocket" && !upgrade {
		return rej(400, 3, "Bad request")
	}
	// 6. the application's hook
	if cfg.hook == 2 {
		return rej(403, 4, hookTextFor(r.method, transport))
	}
	// 7. protocol revision
	if r.eio != "4" && !cfg.eio3 {
		o := rej(400, 5, "Unsupported protocol version")
		o.postAccept = upgrade
		return o
	}
	return admOutcome{}
}

func admBody(cfg admCfg, r admReq) vsched.Body {
	return func(x *vsched.Exec) {
		o := config.DefaultServerOptions()
		o.SetTransports(types.NewSet(cfg.transports...))
		o.SetAllowEIO3(cfg.eio3)
		armed := false
		if cfg.hook != 0 {
			o.SetAllowRequest(func(ctx *types.HttpContext) error {
				if armed && cfg.hook == 2 {
					// the hook's own text differs from request to request
					return errors.New(hookTextFor(ctx.Method(), ctx.Query().Peek("transport")))
				}
				return nil
			})
		}
		w := NewWorld(x, o)
		if cfg.mw != 0 {
			w.Srv.Use(func(_ *types.HttpContext, next func(error)) {
				if armed && cfg.mw == 2 {
					next(errors.New("middleware says no"))
					return
				}
				next(nil)
			})
		}
		// registry contents: one polling session, one websocket session, one closed session
		sids := map[string]string{"unknown": "AAAAAAAAAAAAAAAAAAAAAAAA"}
		var live []*SockRec
		if has(cfg.transports, "polling") {
			pc := &PollClient{W: w, EIO: 4}
			rr := pc.Get()
			x.Settle()
			if pk, err := pc.DecodeResp(rr); err == nil && len(pk) > 0 {
				if open, e := ParseOpen(pk[0]); e == nil {
					sids["polling"], _ = open["sid"].(string)
				}
			}
		}
		if has(cfg.transports, "websocket") {
			ws := w.DialWS(4, "", false, false, "")
			x.Settle()
			if pk, err := ws.Pkts(); err == nil && len(pk) > 0 {
				if open, e := ParseOpen(pk[0]); e == nil {
					sids["websocket"], _ = open["sid"].(string)
				}
			}
		}
		for _, s := range w.Socks {
			live = append(live, s)
		}
		{
			var rr *Resp
			if has(cfg.transports, "polling") {
				rr = (&PollClient{W: w, EIO: 4}).Get()
			} else {
				rr = w.DialWS(4, "", false, false, "").Resp
			}
			x.Settle()
			_ = rr
			if len(w.Socks) == len(live)+1 {
				c := w.Socks[len(w.Socks)-1]
				sids["closed"] = c.Id
				vsched.GoNamed("close", func() { c.Sock.Close(true) })
				x.Settle()
			}
		}
		if r.sid != "" && sids[r.sid] == "" {
			x.Outcome = "skipped"
			return // that kind of session cannot exist under this configuration
		}
		if len(w.ConnErrs) != 0 {
			x.Fail("setup: connection_error during set-up: %v", w.ConnErrs)
			return
		}
		armed = true
		countBefore := w.Srv.ClientsCount()
		socksBefore := len(w.Socks)

		v := url.Values{}
		for _, t := range r.transport {
			v.Add("transport", t)
		}
		if r.sid != "" {
			v.Set("sid", sids[r.sid])
		}
		if r.eio != "" {
			v.Set("EIO", r.eio)
		}
		hdr := map[string]string{}
		if r.upgrade {
			hdr = WSUpgradeHeaders(false)
		}
		switch r.origin {
		case "ok":
			hdr["Origin"] = "http://example.com"
		case "nul":
			hdr["Origin"] = "http://exa\x00mple.com"
		case "lf":
			hdr["Origin"] = "http://example.com\nX-Injected: 1"
		}
		opt := ReqOpt{Hdr: hdr, Hijackable: r.upgrade}
		if r.method == "POST" || r.method == "PUT" {
			opt.Body = []byte{}
		}
		resp := w.Request(r.method, "/engine.io/?"+v.Encode(), opt)
		x.Settle()

		// allowed outcomes: the decision for the transport value the server may consider
		var allowed []admOutcome
		if len(r.transport) == 0 {
			allowed = []admOutcome{admDecide(cfg, r, "")}
		} else {
			allowed = []admOutcome{admDecide(cfg, r, r.transport[0])}
			if last := r.transport[len(r.transport)-1]; last != r.transport[0] {
				allowed = append(allowed, admDecide(cfg, r, last))
			}
		}
		for _, t := range x.Panics() {
			x.Fail("panic[admission]: thread %s: %v (%s | %s)", t.Name, t.Panic, cfg, r)
		}
		if resp.Panic != nil {
			x.Fail("panic[admission handler]: %v (%s | %s)", resp.Panic, cfg, r)
			return
		}
		// observe
		var got admOutcome
		var body struct {
			Code    *int    `json:"code"`
			Message *string `json:"message"`
		}
		newErrs := len(w.ConnErrs)
		switch {
		case resp.Conn != nil:
			ws := &WSClient{Resp: resp, EIO: 4}
			ws.Poll()
			if txt, ok := ws.CloseFrame(); ok && len(w.Socks) == socksBefore && newErrs > 0 {
				got = admOutcome{reject: true, postAccept: true, msg: txt}
				if i := strings.IndexByte(w.ConnErrs[newErrs-1], ':'); i > 0 {
					fmt.Sscan(w.ConnErrs[newErrs-1][:i], &got.code)
				}
				got.status = 400
			}
		case resp.wrote && resp.Code >= 400 && json.Unmarshal(resp.Body, &body) == nil && body.Code != nil && body.Message != nil:
			got = admOutcome{reject: true, status: resp.Code, code: *body.Code, msg: *body.Message}
		case resp.wrote && resp.Code >= 400 && resp.Code != 500:
			got = admOutcome{reject: true, status: resp.Code, code: -1, msg: string(resp.Body)}
		}
		x.Outcome = got.String()
		match := false
		for _, a := range allowed {
			if a.undefined {
				x.Outcome = "undefined-cell"
				return // the statement does not define this cell (only: no panic)
			} else if a.reject == got.reject && (!a.reject || (a.status == got.status && a.code == got.code && a.msg == got.msg && a.postAccept == got.postAccept)) {
				match = true
			}
		}
		want := allowed[len(allowed)-1]
		cls := fmt.Sprintf("[expected %s]", want)
		if !match {
			x.Fail("admission%s: answered %s (status %d body %s), expected %s (%s | %s)", cls, got, resp.Code, bodyPreview(resp.Body), want, cfg, r)
			return
		}
		if got.reject {
			if !got.postAccept && resp.Hdr.Get("Content-Type") != "application/json" {
				x.Fail("admission-content-type%s: rejection with Content-Type %q (%s | %s)", cls, resp.Hdr.Get("Content-Type"), cfg, r)
			}
			if newErrs != 1 {
				x.Fail("admission-connection-error%s: %d connection_error events for one rejected request (%s | %s)", cls, newErrs, cfg, r)
			}
			if w.Srv.ClientsCount() != countBefore || len(w.Socks) != socksBefore {
				x.Fail("admission-created-session%s: a rejected request changed the registry: count %d -> %d, %d connection events (%s | %s)", cls, countBefore, w.Srv.ClientsCount(), len(w.Socks)-socksBefore, cfg, r)
			}
			for _, s := range live {
				if s.Sock.ReadyState() != "open" || s.Count("close") != 0 {
					x.Fail("admission-disturbed-session%s: an existing %s session is %s after a rejected request (%s | %s)", cls, s.Sock.Transport().Name(), s.Sock.ReadyState(), cfg, r)
				}
			}
			if !resp.Returned && resp.Conn == nil {
				x.Fail("admission-handler-blocked%s: the handler of a rejected request did not return (%s | %s)", cls, cfg, r)
			}
		} else {
			if newErrs != 0 {
				x.Fail("admission-connection-error%s: connection_error %v for an admitted request (%s | %s)", cls, w.ConnErrs, cfg, r)
			}
			if r.sid == "" {
				if len(w.Socks) != socksBefore+1 || w.Srv.ClientsCount() != countBefore+1 {
					x.Fail("admission-handshake%s: admitted handshake created %d sessions, count %d -> %d (%s | %s)", cls, len(w.Socks)-socksBefore, countBefore, w.Srv.ClientsCount(), cfg, r)
				}
			} else if len(w.Socks) != socksBefore {
				x.Fail("admission-created-session%s: a request naming a session created another one (%s | %s)", cls, cfg, r)
			}
		}
	}
}

// ---- routing ----

type routeCfg struct {
	attach string  // "nil" | "server-options" | "attach-options"
	path   *string // attach-options only
	slash  *bool
}

func (c routeCfg) String() string {
	p, s := "unset", "unset"
	if c.path != nil {
		p = *c.path
	}
	if c.slash != nil {
		s = fmt.Sprint(*c.slash)
	}
	return fmt.Sprintf("attach=%s path=%s addTrailingSlash=%s", c.attach, p, s)
}

// refMount: the documented default is "/engine.io" plus a trailing slash unless
// addTrailingSlash is false; a configured path has its trailing slashes stripped first.
func refMount(c routeCfg) string {
	p := "/engine.io"
	if c.path != nil {
		p = strings.TrimRight(*c.path, "/")
	}
	if c.slash == nil || *c.slash {
		p += "/"
	}
	return p
}

// refCleanPath: RFC 3986 dot-segment removal and slash collapsing, keeping a trailing slash.
func refCleanPath(p string) string {
	if p == "" {
		return "/"
	}
	if p[0] != '/' {
		p = "/" + p
	}
	trailing := strings.HasSuffix(p, "/") || strings.HasSuffix(p, "/.") || strings.HasSuffix(p, "/..")
	var out []string
	for _, seg := range strings.Split(p, "/") {
		switch seg {
		case "", ".":
		case "..":
			if len(out) > 0 {
				out = out[:len(out)-1]
			}
		default:
			out = append(out, seg)
		}
	}
	res := "/" + strings.Join(out, "/")
	if trailing && res != "/" && strings.HasSuffix(p, "/") {
		res += "/"
	}
	return res
}

func refRoutesToEngine(mount, reqPath string) bool {
	cp := refCleanPath(reqPath)
	if strings.HasSuffix(mount, "/") {
		return strings.HasPrefix(cp, mount)
	}
	return cp == mount
}

func strp(s string) *string { return &s }
func boolp(b bool) *bool    { return &b }

func init() {
	register("C05", "routing", false, func(c *Ctx) {
		var cfgs []routeCfg
		cfgs = append(cfgs, routeCfg{attach: "nil"}, routeCfg{attach: "server-options"})
		for _, p := range []*string{nil, strp("/engine.io"), strp("/engine.io/"), strp("/x"), strp("/x/"), strp("/a/b"), strp("/a/b//")} {
			for _, s := range []*bool{nil, boolp(true), boolp(false)} {
				cfgs = append(cfgs, routeCfg{attach: "attach-options", path: p, slash: s})
			}
		}
		n := 0
		for _, rc := range cfgs {
			rc := rc
			mount := refMount(rc)
			base := strings.TrimRight(mount, "/")
			paths := []string{mount, base, base + "/", base + "/sub", base + "/sub/", base + "x", base + "/./", base + "//", "/." + base + "/", base + "/../" + strings.TrimPrefix(base, "/") + "/", base + "/..", base + "/.", base + "/sub/..", "/other" + base + "/../.." + base + "/",
				strings.ToUpper(base) + "/", "/", "/unrelated", "/unrelated/", "/engine.io/", "/engine.io", "/socket.io/"}
			for _, method := range []string{"GET", "POST", "CONNECT", "OPTIONS", "DELETE"} {
				for _, rp := range paths {
					rp, method := rp, method
					n++
					id := fmt.Sprintf("route %s | %s %s", rc, method, rp)
					c.Once(id, func(x *vsched.Exec) {
						app := http.HandlerFunc(func(w http.ResponseWriter, r *http.Request) {
							w.WriteHeader(299)
							w.Write([]byte("APP"))
						})
						hs := types.NewWebServer(app)
						var srv engine.Server
						switch rc.attach {
						case "nil":
							srv = engine.Attach(hs, nil)
						case "server-options":
							srv = engine.Attach(hs, config.DefaultServerOptions())
						default:
							ao := config.DefaultAttachOptions()
							if rc.path != nil {
								ao.SetPath(*rc.path)
							}
							if rc.slash != nil {
								ao.SetAddTrailingSlash(*rc.slash)
							}
							srv = engine.NewServer(nil)
							srv.Attach(hs, ao)
						}
						w := &World{X: x, ByID: map[string]*SockRec{}, actions: map[string]int{}, PostMsgs: map[*Resp][]string{}, EpilogueFrom: 1 << 30, Srv: srv, Handler: hs}
						w.hook()
						target := (&url.URL{Path: rp}).EscapedPath() + "?EIO=4&transport=polling"
						if !strings.HasPrefix(target, "/") {
							target = "/" + target
						}
						r := w.Request(method, target, ReqOpt{})
						x.Settle()
						gotEngine := !(r.Code == 299 && string(r.Body) == "APP")
						want := refRoutesToEngine(mount, rp)
						x.Outcome = fmt.Sprintf("engine=%v", gotEngine)
						cls := fmt.Sprintf("[attach=%s]", rc.attach)
						if rc.attach == "attach-options" {
							cls = fmt.Sprintf("[attach-options path-set=%v slash=%v]", rc.path != nil, map[bool]string{true: "unset"}[rc.slash == nil]+fmt.Sprint(rc.slash != nil && *rc.slash))
						}
						if gotEngine != want {
							x.Fail("routing%s: %s %q (cleaned %q) served by engine=%v, expected engine=%v for mount %q (%s)", cls, method, rp, refCleanPath(rp), gotEngine, want, mount, rc)
						}
						if gotEngine && method == "GET" && want {
							if r.Code != 200 || len(w.Socks) != 1 {
								x.Fail("routing-handshake%s: engine reached but the handshake was answered %d %s (%s)", cls, r.Code, bodyPreview(r.Body), rc)
							}
						}
					})
				}
			}
		}
		c.Res.Distinct = int64(n)
		c.Sample("route attach=nil path=unset addTrailingSlash=unset | GET /engine.io/")
		c.Note("attach {nil, server options only, attach options with path in {unset,/engine.io,/engine.io/,/x,/x/,/a/b,/a/b//} x addTrailingSlash {unset,true,false}} x 21 request paths (mount, +-slash, sub-paths, dot segments, doubled slashes, case variant, unrelated) x {GET,POST,CONNECT,OPTIONS,DELETE} through types.HttpServer.ServeHTTP; oracle = reference clean-path + mount rule")
	})

	cfgsFor := func(thorough bool) []admCfg {
		var out []admCfg
		for _, tr := range [][]string{{"polling", "websocket"}, {"polling"}, {"websocket"}, {"polling", "websocket", "webtransport"}} {
			for _, e3 := range []bool{false, true} {
				for hook := 0; hook < 3; hook++ {
					for mw := 0; mw < 3; mw++ {
						if !thorough && (hook == 1 || mw == 1) {
							continue
						}
						out = append(out, admCfg{tr, e3, hook, mw})
					}
				}
			}
		}
		return out
	}
	for ci, cfg := range cfgsFor(true) {
		cfg := cfg
		quick := false
		for _, q := range cfgsFor(false) {
			if q.String() == cfg.String() {
				quick = true
			}
		}
		register("C05", fmt.Sprintf("admission/%s", cfg), !quick, func(c *Ctx) {
			n := 0
			transports := [][]string{nil, {"polling"}, {"websocket"}, {"webtransport"}, {"bogus"}, {"bogus", "polling"}, {"polling", "bogus"}}
			origins := Pick(c, []string{"", "nul"}, []string{"", "ok", "nul", "lf"})
			// "04" and "+4" are other spellings of the number 4, not the revision value "4"
			eios := Pick(c, []string{"", "3", "4", "04"}, []string{"", "3", "4", "04", "+4", "5", "x"})
			for _, method := range []string{"GET", "POST", "PUT", "OPTIONS"} {
				for _, tr := range transports {
					for _, sid := range []string{"", "unknown", "polling", "websocket", "closed"} {
						for _, origin := range origins {
							for _, upg := range []bool{false, true} {
								for _, eio := range eios {
									if upg && method != "GET" {
										continue // a websocket upgrade request is a GET
									}
									if sid != "" && eio != "4" && eio != "" {
										continue // the revision parameter only matters for handshakes
									}
									r := admReq{method, tr, sid, origin, upg, eio}
									n++
									id := fmt.Sprintf("%s | %s", cfg, r)
									c.Once(id, admBody(cfg, r))
									if n%400 == 1 && ci%6 == 0 {
										c.Sample(id)
									}
								}
							}
						}
					}
				}
			}
			c.Res.Distinct = int64(n)
			c.Note("one server configuration x every request shape: method {GET,POST,PUT,OPTIONS} x transport {absent,polling,websocket,webtransport,bogus,repeated} x sid {absent,unknown,polling session,websocket session,closed session} x Origin %v x upgrade/plain x EIO %v; registry holds a polling, a websocket and a closed session; oracle = first failing check in the documented precedence", origins, eios)
		})
	}
}

// A refused request whose client has already gone (or goes while the application's hook is deciding) is
// still reported: exactly one connection_error with the documented code, nothing registered, handler returns.
func admLeftBody(kind string) vsched.Body {
	return func(x *vsched.Exec) {
		o := config.DefaultServerOptions()
		var cur *Resp
		if kind == "hook-denies-after-client-left" {
			o.SetAllowRequest(func(*types.HttpContext) error {
				if cur != nil {
					cur.Abort()
					vsched.Sleep(time.Millisecond) // the hook takes a while; the disconnect is noticed meanwhile
				}
				return errors.New(hookText)
			})
		}
		w := NewWorld(x, o)
		wantCode := map[string]int{"hook-denies-after-client-left": 4, "unknown-transport": 0, "unknown-sid": 1, "bad-method": 2, "unsupported-version": 5}[kind]
		target := map[string]string{
			"hook-denies-after-client-left": "/engine.io/?EIO=4&transport=polling",
			"unknown-transport":             "/engine.io/?EIO=4&transport=bogus",
			"unknown-sid":                   "/engine.io/?EIO=4&transport=polling&sid=AAAAAAAAAAAAAAAAAAAAAAAA",
			"bad-method":                    "/engine.io/?EIO=4&transport=polling",
			"unsupported-version":           "/engine.io/?EIO=3&transport=polling",
		}[kind]
		method := "GET"
		opt := ReqOpt{}
		if kind == "bad-method" {
			method = "POST"
			opt.Body = []byte{}
		}
		r := w.Request(method, target, opt)
		cur = r
		if kind != "hook-denies-after-client-left" {
			vsched.GoNamed("client-leaves", func() { r.Abort() })
		}
		x.Run(x.Now() + time.Second)
		cls := "[" + kind + "]"
		for _, t := range x.Panics() {
			x.Fail("panic[admission client-left]: thread %s: %v", t.Name, t.Panic)
		}
		if len(w.ConnErrs) != 1 {
			x.Fail("admission-connection-error%s: %d connection_error events %v for one refused request whose client had left", cls, len(w.ConnErrs), w.ConnErrs)
		} else if !strings.HasPrefix(w.ConnErrs[0], fmt.Sprintf("%d:", wantCode)) {
			x.Fail("admission-connection-error-code%s: connection_error %q, documented code %d", cls, w.ConnErrs[0], wantCode)
		}
		if w.Srv.ClientsCount() != 0 || len(w.Socks) != 0 {
			x.Fail("admission-created-session%s: a refused request registered a session", cls)
		}
		if !r.Returned {
			x.Fail("admission-handler-blocked%s: the handler of a refused request did not return", cls)
		}
		x.Outcome = fmt.Sprint(w.ConnErrs)
	}
}

func init() {
	register("C05", "client-left", false, func(c *Ctx) {
		kinds := []string{"hook-denies-after-client-left", "unknown-transport", "unknown-sid", "bad-method", "unsupported-version"}
		for _, k := range kinds {
			c.Explore("refused request, client left: "+k, Pick(c, 2, 3), admLeftBody(k))
		}
		c.Res.Distinct = int64(len(kinds))
		c.Note("a request refused for each documented reason whose client disconnects before / while it is being decided, every interleaving of the disconnect with the handler up to the bound: one connection_error with the documented code, no session, handler returns")
	})
}
