package harness

import (
	"context"
	"errors"
	"io"
	"net"
	"reflect"
	"time"
	"unsafe"

	"github.com/quic-go/quic-go"
	"github.com/quic-go/quic-go/http3"
	wtgo "github.com/zishang520/webtransport-go"
	"verifrt/vsched"
)

// Fakes that let a real webtransport.Conn (and a real *webtransport-go.Session value)
// run over an in-memory stream with scripted fragmentation and faults.

// fakeStream implements webtransport-go's Stream.
type fakeStream struct {
	in      []byte // bytes the peer sent, not yet read
	off     int
	plan    []int // sizes of the next short reads (0 entries consumed in order); after the plan: chunk
	chunk   int   // max bytes per Read after the plan (0 = unlimited)
	reads   int   // Read calls so far
	failAt  int   // fail the Read call with this index (-1 = never)
	failErr error
	eofErr  error // error at end of input (default io.EOF)
	eofWithData bool // the last bytes are returned together with the end-of-input error (as a QUIC stream does on FIN)
	out     []byte
	writes  [][]byte // one entry per Write call
	wrFail  int      // fail the Write call with this index (-1 never)
	wrPartial int    // bytes the failing Write call accepts before it fails
	onWrite func(call int) // runs at the start of a Write call, before its bytes are consumed (a slow stream)
	closed  bool
	// live mode (engine-level sessions): reads block until data or close
	live      bool
	peerClose bool
}

func newFakeStream(in []byte) *fakeStream {
	return &fakeStream{in: in, failAt: -1, wrFail: -1}
}

func (s *fakeStream) Read(p []byte) (int, error) {
	if s.live {
		vsched.WaitFor(uintptr(unsafe.Pointer(s)), "wt-read", func() bool { return s.off < len(s.in) || s.peerClose || s.closed })
		if s.closed {
			return 0, net.ErrClosed
		}
	}
	idx := s.reads
	s.reads++
	if idx == s.failAt {
		return 0, s.failErr
	}
	if s.off >= len(s.in) {
		if s.eofErr != nil {
			return 0, s.eofErr
		}
		return 0, io.EOF
	}
	n := len(p)
	if len(s.plan) > 0 {
		if s.plan[0] < n {
			n = s.plan[0]
		}
		s.plan = s.plan[1:]
	} else if s.chunk > 0 && s.chunk < n {
		n = s.chunk
	}
	if n > len(s.in)-s.off {
		n = len(s.in) - s.off
	}
	if n == 0 && len(p) > 0 {
		n = 1
	}
	copy(p, s.in[s.off:s.off+n])
	s.off += n
	if s.eofWithData && !s.live && s.off >= len(s.in) {
		if s.eofErr != nil {
			return n, s.eofErr
		}
		return n, io.EOF
	}
	return n, nil
}

func (s *fakeStream) Write(p []byte) (int, error) {
	if s.live {
		vsched.WaitFor(uintptr(unsafe.Pointer(s)), "wt-write", nil)
		if s.closed {
			return 0, net.ErrClosed
		}
	}
	if s.onWrite != nil {
		s.onWrite(len(s.writes))
	}
	if len(s.writes) == s.wrFail {
		k := s.wrPartial
		if k > len(p) {
			k = len(p)
		}
		s.out = append(s.out, p[:k]...)
		s.writes = append(s.writes, append([]byte(nil), p[:k]...))
		return k, errors.New("injected write failure")
	}
	s.out = append(s.out, p...)
	s.writes = append(s.writes, append([]byte(nil), p...))
	return len(p), nil
}

func (s *fakeStream) Close() error                     { s.closed = true; return nil }
func (s *fakeStream) StreamID() quic.StreamID          { return 4 }
func (s *fakeStream) CancelWrite(wtgo.StreamErrorCode) {}
func (s *fakeStream) CancelRead(wtgo.StreamErrorCode)  {}
func (s *fakeStream) SetWriteDeadline(time.Time) error { return nil }
func (s *fakeStream) SetReadDeadline(time.Time) error  { return nil }
func (s *fakeStream) SetDeadline(time.Time) error      { return nil }

// PeerWrite appends bytes from the peer (live mode; scheduling point).
func (s *fakeStream) PeerWrite(b []byte) {
	vsched.WaitFor(uintptr(unsafe.Pointer(s)), "wt-peer-write", nil)
	s.in = append(s.in, b...)
}

// PeerClose ends the peer's side of the stream.
func (s *fakeStream) PeerClose() {
	vsched.WaitFor(uintptr(unsafe.Pointer(s)), "wt-peer-close", nil)
	s.peerClose = true
}

// fakeReqStream is the HTTP/3 request stream of the session (close capsule sink).
type fakeReqStream struct {
	written []byte
	closes  int
	cancel  context.CancelFunc
	bound   *fakeStream // closing the session closes its streams
}

func (r *fakeReqStream) Read(p []byte) (int, error) { return 0, io.EOF }
func (r *fakeReqStream) Write(p []byte) (int, error) {
	r.written = append(r.written, p...)
	return len(p), nil
}
func (r *fakeReqStream) Close() error {
	r.closes++
	if r.cancel != nil {
		r.cancel()
	}
	if r.bound != nil {
		r.bound.closed = true
	}
	return nil
}
func (r *fakeReqStream) StreamID() quic.StreamID                         { return 0 }
func (r *fakeReqStream) CancelWrite(quic.StreamErrorCode)                {}
func (r *fakeReqStream) CancelRead(quic.StreamErrorCode)                 {}
func (r *fakeReqStream) SetWriteDeadline(time.Time) error                { return nil }
func (r *fakeReqStream) SetReadDeadline(time.Time) error                 { return nil }
func (r *fakeReqStream) SetDeadline(time.Time) error                     { return nil }
func (r *fakeReqStream) Context() context.Context                        { return context.Background() }
func (r *fakeReqStream) SendDatagram([]byte) error                       { return nil }
func (r *fakeReqStream) ReceiveDatagram(context.Context) ([]byte, error) { return nil, io.EOF }

type fakeQConn struct{}

func (fakeQConn) OpenStream() (quic.Stream, error)                    { return nil, errors.New("fake") }
func (fakeQConn) OpenStreamSync(context.Context) (quic.Stream, error) { return nil, errors.New("fake") }
func (fakeQConn) OpenUniStream() (quic.SendStream, error)             { return nil, errors.New("fake") }
func (fakeQConn) OpenUniStreamSync(context.Context) (quic.SendStream, error) {
	return nil, errors.New("fake")
}
func (fakeQConn) LocalAddr() net.Addr                                    { return fakeAddr("192.0.2.2:443") }
func (fakeQConn) RemoteAddr() net.Addr                                   { return fakeAddr("192.0.2.1:4433") }
func (fakeQConn) CloseWithError(quic.ApplicationErrorCode, string) error { return nil }
func (fakeQConn) Context() context.Context                               { return context.Background() }
func (fakeQConn) ConnectionState() quic.ConnectionState                  { return quic.ConnectionState{} }
func (fakeQConn) ReceivedSettings() <-chan struct{}                      { c := make(chan struct{}); close(c); return c }
func (fakeQConn) Settings() *http3.Settings                              { return &http3.Settings{} }

// fakeSession is a real *webtransport-go.Session whose unexported transport fields
// point at the fakes above (harness side only; /repo is not touched).
type fakeSession struct {
	S   *wtgo.Session
	Req *fakeReqStream
}

// Closed reports how many times the session was asked to close (close capsule written).
func (f *fakeSession) Closed() bool { return len(f.Req.written) > 0 || f.Req.closes > 0 }

func newFakeSession() *fakeSession {
	s := &wtgo.Session{}
	ctx, cancel := context.WithCancel(context.Background())
	req := &fakeReqStream{cancel: cancel}
	v := reflect.ValueOf(s)
	var qc http3.Connection = fakeQConn{}
	var rs http3.Stream = req
	setUnexportedIface(v, "qconn", reflect.ValueOf(&qc).Elem())
	setUnexportedIface(v, "requestStr", reflect.ValueOf(&rs).Elem())
	setUnexportedIface(v, "ctx", reflect.ValueOf(&ctx).Elem())
	return &fakeSession{S: s, Req: req}
}

func setUnexportedIface(v reflect.Value, name string, val reflect.Value) {
	f := v.Elem().FieldByName(name)
	if !f.IsValid() {
		panic("webtransport-go Session has no field " + name)
	}
	reflect.NewAt(f.Type(), unsafe.Pointer(f.UnsafeAddr())).Elem().Set(val)
}

// ---- reference codec of the Engine.IO WebTransport framing (written from the protocol text) ----

type wtMsg struct {
	Binary bool
	Data   []byte
}

// wtEncode encodes one frame; form 0 = minimal length form, 1 = force 16-bit, 2 = force 64-bit.
func wtEncode(m wtMsg, form int) []byte {
	n := len(m.Data)
	var b0 byte
	if m.Binary {
		b0 = 0x80
	}
	var out []byte
	switch {
	case form == 2 || n >= 65536:
		out = append(out, b0|127, byte(uint64(n)>>56), byte(uint64(n)>>48), byte(uint64(n)>>40), byte(uint64(n)>>32), byte(n>>24), byte(n>>16), byte(n>>8), byte(n))
	case form == 1 || n >= 126:
		out = append(out, b0|126, byte(n>>8), byte(n))
	default:
		out = append(out, b0|byte(n))
	}
	return append(out, m.Data...)
}

// wtDecodeResult is what the reference decoder says about a byte stream.
type wtDecoded struct {
	Msgs     []wtMsg // complete messages, in order
	Declared []uint64
	Consumed int    // bytes taken by the complete frames
	Tail     string // "clean" (ended on a frame boundary), "header" (ended inside a header), "payload" (ended inside a payload)
	TailKind bool
	TailHave []byte // payload bytes present of the truncated frame
	TailDecl uint64
}

func wtDecode(b []byte) wtDecoded {
	var d wtDecoded
	for {
		if len(b) == 0 {
			d.Tail = "clean"
			return d
		}
		bin := b[0]&0x80 != 0
		n := uint64(b[0] & 0x7f)
		h := 1
		switch n {
		case 126:
			if len(b) < 3 {
				d.Tail = "header"
				return d
			}
			n = uint64(b[1])<<8 | uint64(b[2])
			h = 3
		case 127:
			if len(b) < 9 {
				d.Tail = "header"
				return d
			}
			n = 0
			for i := 1; i <= 8; i++ {
				n = n<<8 | uint64(b[i])
			}
			h = 9
		}
		b = b[h:]
		if uint64(len(b)) < n {
			d.Tail, d.TailKind, d.TailHave, d.TailDecl = "payload", bin, b, n
			return d
		}
		d.Msgs = append(d.Msgs, wtMsg{bin, b[:n]})
		d.Declared = append(d.Declared, n)
		d.Consumed += h + int(n)
		b = b[n:]
	}
}
