package harness

import (
	"bytes"
	"strings"
	"errors"
	"fmt"
	"io"
	"sync"

	wt "github.com/zishang520/engine.io/v2/webtransport"
)

// C13 (round trip), C14 (wire format), C15 (reader totality) on the real
// webtransport.Conn over the fake stream. Bounded exhaustive enumeration (E2),
// no scheduler: the Conn is sequential code.

type wtWriterCfg struct {
	server bool
	wb     int // write buffer size argument (0 = default)
	pool   bool
}

func (c wtWriterCfg) String() string {
	return fmt.Sprintf("server=%v wb=%d pool=%v", c.server, c.wb, c.pool)
}

type wtPath struct {
	api     string // WriteMessage | Write | WriteString | ReadFrom | Prepared
	chunk   int    // 0 = whole; >0 = input fed in chunks of this many bytes
	tailEOF bool   // ReadFrom: the reader returns its last bytes together with io.EOF
}

func (p wtPath) String() string {
	t := ""
	if p.tailEOF {
		t = "/tail+EOF"
	}
	if p.chunk == 0 {
		return p.api + t
	}
	return fmt.Sprintf("%s/chunk=%d%s", p.api, p.chunk, t)
}

func wtPayload(n int, binary bool) []byte {
	b := make([]byte, n)
	for i := range b {
		if binary {
			b[i] = byte(i*7 + n + 0x80)
		} else {
			b[i] = 'a' + byte((i+n)%26)
		}
	}
	return b
}

type chunkReader struct {
	b       []byte
	n       int
	tailEOF bool
}

func (r *chunkReader) Read(p []byte) (int, error) {
	if len(r.b) == 0 {
		return 0, io.EOF
	}
	n := len(p)
	if r.n > 0 && r.n < n {
		n = r.n
	}
	if n > len(r.b) {
		n = len(r.b)
	}
	copy(p, r.b[:n])
	r.b = r.b[n:]
	if r.tailEOF && len(r.b) == 0 {
		return n, io.EOF
	}
	return n, nil
}

// wtWrite sends one message through the given path.
func wtWrite(c *wt.Conn, p wtPath, m wtMsg) error {
	mt := wt.TextMessage
	if m.Binary {
		mt = wt.BinaryMessage
	}
	switch p.api {
	case "WriteMessage":
		tmp := append([]byte(nil), m.Data...)
		err := c.WriteMessage(mt, tmp)
		for i := range tmp {
			tmp[i] = 0xEE
		}
		return err
	case "Prepared":
		pm, err := wt.NewPreparedMessage(mt, m.Data)
		if err != nil {
			return err
		}
		return c.WritePreparedMessage(pm)
	}
	w, err := c.NextWriter(mt)
	if err != nil {
		return err
	}
	switch p.api {
	case "Write", "WriteString":
		data := m.Data
		// one scratch buffer for every chunk, overwritten as soon as Write has returned (what
		// io.CopyBuffer does): the writer may not keep the caller's slice
		scratch := make([]byte, len(data))
		if p.chunk > 0 && p.chunk < len(data) {
			scratch = scratch[:p.chunk]
		}
		for first := true; first || len(data) > 0; first = false {
			n := len(data)
			if p.chunk > 0 && p.chunk < n {
				n = p.chunk
			}
			if p.api == "Write" {
				copy(scratch, data[:n])
				_, err = w.Write(scratch[:n])
				for i := range scratch {
					scratch[i] = 0xEE
				}
			} else {
				_, err = w.(io.StringWriter).WriteString(string(data[:n]))
			}
			if err != nil {
				return err
			}
			data = data[n:]
		}
	case "ReadFrom":
		if _, err = w.(io.ReaderFrom).ReadFrom(&chunkReader{b: m.Data, n: p.chunk, tailEOF: p.tailEOF}); err != nil {
			return err
		}
	}
	return w.Close()
}

func newWriterConn(cfg wtWriterCfg, st *fakeStream) *wt.Conn {
	var pool wt.BufferPool
	if cfg.pool {
		pool = &sync.Pool{}
	}
	return wt.NewConn(nil, st, cfg.server, 0, cfg.wb, pool, nil, nil)
}

// lifoPool is a deterministic BufferPool: Get returns the value put last.
type lifoPool struct{ items []any }

func (p *lifoPool) Get() any {
	if n := len(p.items); n > 0 {
		v := p.items[n-1]
		p.items = p.items[:n-1]
		return v
	}
	return nil
}
func (p *lifoPool) Put(v any) { p.items = append(p.items, v) }

type wtReadMode struct {
	rb    int    // read buffer size argument
	plan  []int  // short reads
	chunk int    // max bytes per read afterwards (0 unlimited)
	api   string // ReadMessage | Read1 | Read5 | Read64K
	eofWith bool // the stream returns its last bytes together with io.EOF (as a QUIC stream does on FIN)
}

func (m wtReadMode) String() string {
	if m.eofWith {
		return fmt.Sprintf("rb=%d plan=%v chunk=%d api=%s last-bytes-with-EOF", m.rb, m.plan, m.chunk, m.api)
	}
	return fmt.Sprintf("rb=%d plan=%v chunk=%d api=%s", m.rb, m.plan, m.chunk, m.api)
}

// wtReadAll reads messages until an error; returns them and the terminal error.
func wtReadAll(stream []byte, mode wtReadMode, limit int64) (msgs []wtMsg, err error, fs *fakeStream, sess *fakeSession) {
	fs = newFakeStream(stream)
	fs.plan = append([]int(nil), mode.plan...)
	fs.chunk = mode.chunk
	fs.eofWithData = mode.eofWith
	sess = newFakeSession()
	c := wt.NewConn(sess.S, fs, true, mode.rb, 0, nil, nil, nil)
	if limit != 0 {
		c.SetReadLimit(limit)
	}
	for i := 0; i < 1<<20; i++ {
		var mt int
		var data []byte
		switch mode.api {
		case "ReadMessage":
			mt, data, err = c.ReadMessage()
		default:
			var r io.Reader
			mt, r, err = c.NextReader()
			if err == nil {
				sz := 5
				if mode.api == "Read1" {
					sz = 1
				}
				if mode.api == "Read64K" {
					sz = 65536
				}
				buf := make([]byte, sz)
				for {
					n, e := r.Read(buf)
					data = append(data, buf[:n]...)
					if e == io.EOF {
						break
					}
					if e != nil {
						err = e
						break
					}
				}
			}
		}
		if err != nil {
			return
		}
		msgs = append(msgs, wtMsg{Binary: mt == wt.BinaryMessage, Data: data})
	}
	return
}

func wtMsgsEqual(a, b []wtMsg) bool {
	if len(a) != len(b) {
		return false
	}
	for i := range a {
		if a[i].Binary != b[i].Binary || !bytes.Equal(a[i].Data, b[i].Data) {
			return false
		}
	}
	return true
}

func fmtWtMsgs(ms []wtMsg) string {
	var b bytes.Buffer
	b.WriteByte('[')
	for i, m := range ms {
		if i > 0 {
			b.WriteByte(' ')
		}
		k := "text"
		if m.Binary {
			k = "binary"
		}
		fmt.Fprintf(&b, "%s:%d", k, len(m.Data))
	}
	b.WriteByte(']')
	return b.String()
}

// lenClass gives the fingerprint class of a payload length relative to the internal buffer.
func lenClass(n, wb int) string {
	if wb == 0 {
		wb = 4096
	}
	buf := wb + 9 // payload capacity of the internal frame buffer = writeBufferSize
	_ = buf
	switch {
	case n <= wb:
		return "len<=writeBuf"
	case n <= 2*(wb+9):
		return "writeBuf<len<=2x"
	default:
		return "len>2x-writeBuf"
	}
}

func wtLengths(wb int, thorough bool) []int {
	if wb == 0 {
		wb = 4096
	}
	set := map[int]bool{}
	for n := 0; n <= 130; n++ {
		set[n] = true
	}
	for n := wb - 10; n <= wb+20; n++ {
		if n >= 0 {
			set[n] = true
		}
	}
	for n := 2*wb - 10; n <= 2*wb+30; n++ {
		set[n] = true
	}
	for n := 3 * wb; n <= 3*wb+30; n += 7 {
		set[n] = true
	}
	if wb == 4096 {
		for n := 65530; n <= 65541; n++ {
			set[n] = true
		}
		set[100000] = true
		if thorough {
			set[1<<20] = true
			set[1<<20+1] = true
		}
	}
	out := make([]int, 0, len(set))
	for n := range set {
		out = append(out, n)
	}
	sortInts(out)
	return out
}

func sortInts(a []int) {
	for i := 1; i < len(a); i++ {
		for j := i; j > 0 && a[j-1] > a[j]; j-- {
			a[j-1], a[j] = a[j], a[j-1]
		}
	}
}

func wtPaths(wb, n int) []wtPath {
	if wb == 0 {
		wb = 4096
	}
	ps := []wtPath{{api: "WriteMessage"}, {api: "Write"}, {api: "WriteString"}, {api: "ReadFrom"}, {api: "Prepared"}}
	if n > 0 {
		ps = append(ps, wtPath{api: "ReadFrom", tailEOF: true})
	}
	if n > 1 {
		if n <= 300 {
			ps = append(ps, wtPath{api: "Write", chunk: 1}, wtPath{api: "ReadFrom", chunk: 1})
		}
		if n > 7 && n <= 20000 {
			ps = append(ps, wtPath{api: "Write", chunk: 7}, wtPath{api: "WriteString", chunk: 7}, wtPath{api: "ReadFrom", chunk: 7}, wtPath{api: "ReadFrom", chunk: 7, tailEOF: true})
		}
		if n > wb {
			ps = append(ps, wtPath{api: "Write", chunk: wb}, wtPath{api: "Write", chunk: wb + 1}, wtPath{api: "ReadFrom", chunk: wb + 1}, wtPath{api: "WriteString", chunk: wb + 9})
		}
	}
	return ps
}

func readModesFor(total int, thorough bool) []wtReadMode {
	ms := []wtReadMode{{api: "ReadMessage"}, {rb: 16, api: "ReadMessage"}, {api: "Read5"},
		{api: "ReadMessage", eofWith: true}, {api: "Read64K", eofWith: true}, {api: "Read64K"}, {rb: 16, api: "Read5", eofWith: true},
		{rb: 16, api: "ReadMessage", eofWith: true}, {rb: 64, api: "Read64K", eofWith: true}}
	if total <= 70000 {
		ms = append(ms, wtReadMode{chunk: 1, api: "ReadMessage"}, wtReadMode{rb: 16, chunk: 1, api: "Read1"})
	}
	var offs []int
	if total <= 300 {
		for o := 1; o < total; o++ {
			offs = append(offs, o)
		}
	} else {
		for _, o := range []int{1, 2, 3, 4, 8, 9, 10, 11, 16, 17, total / 2, total - 1} {
			if o > 0 && o < total {
				offs = append(offs, o)
			}
		}
	}
	for _, o := range offs {
		ms = append(ms, wtReadMode{plan: []int{o}, api: "ReadMessage"})
		if total <= 300 {
			ms = append(ms, wtReadMode{rb: 16, plan: []int{o}, api: "Read5"})
		}
	}
	if thorough && total <= 140 {
		for o1 := 1; o1 < total; o1++ {
			for o2 := 1; o1+o2 < total; o2++ {
				ms = append(ms, wtReadMode{plan: []int{o1, o2}, api: "ReadMessage"})
			}
		}
	}
	return ms
}

func init() {
	cfgs := func() []wtWriterCfg {
		var out []wtWriterCfg
		for _, server := range []bool{true, false} {
			for _, wb := range []int{0, 16, 64} {
				for _, pool := range []bool{false, true} {
					out = append(out, wtWriterCfg{server, wb, pool})
				}
			}
		}
		return out
	}()
	for ci, cfg := range cfgs {
		cfg := cfg
		ci := ci
		for _, prop := range []string{"C13", "C14"} {
			prop := prop
			register(prop, fmt.Sprintf("single/%s", cfg), false, func(c *Ctx) {
				var n, distinct int64
				outcomes := map[string]bool{}
				for _, ln := range wtLengths(cfg.wb, c.Thorough()) {
					for _, bin := range []bool{false, true} {
						m := wtMsg{Binary: bin, Data: wtPayload(ln, bin)}
						for _, p := range wtPaths(cfg.wb, ln) {
							if p.api == "Prepared" && (cfg.wb != 0 || cfg.pool) {
								continue // a prepared frame does not depend on the connection's buffers
							}
							id := fmt.Sprintf("%s | %s | kind-binary=%v len=%d", cfg, p, bin, ln)
							distinct++
							cls := fmt.Sprintf("[path=%s server=%v %s]", p.api, cfg.server, lenClass(ln, cfg.wb))
							c.Case(id, func() []string {
								st := newFakeStream(nil)
								conn := newWriterConn(cfg, st)
								if err := wtWrite(conn, p, m); err != nil {
									return []string{fmt.Sprintf("write-error%s: %v (%s)", cls, err, id)}
								}
								want := wtEncode(m, 0)
								if prop == "C14" {
									n++
									if !bytes.Equal(st.out, want) {
										d := wtDecode(st.out)
										return []string{fmt.Sprintf("wire-format%s: emitted %d bytes that are not the single reference frame (%d bytes); as frames: %s tail=%s (%s)", cls, len(st.out), len(want), fmtWtMsgs(d.Msgs), d.Tail, id)}
									}
									outcomes[fmt.Sprintf("hdr=%d", len(want)-ln)] = true
									return nil
								}
								var fails []string
								for _, mode := range readModesFor(len(st.out), c.Thorough()) {
									n++
									got, err, _, _ := wtReadAll(st.out, mode, 0)
									if !wtMsgsEqual(got, []wtMsg{m}) {
										fails = append(fails, fmt.Sprintf("round-trip%s: wrote one %s message, peer read %s then %v (read side %s) (%s)", cls, fmtWtMsgs([]wtMsg{m}), fmtWtMsgs(got), err, mode, id))
										break
									}
								}
								outcomes[fmt.Sprintf("ok frames=1 hdr=%d", len(st.out)-ln)] = true
								return fails
							})
						}
					}
				}
				c.Res.Transitions += n
				c.Res.States += distinct
				c.Res.Distinct = distinct
				for k := range outcomes {
					c.Res.Outcomes[k]++
				}
				if ci == 0 {
					c.Sample(fmt.Sprintf("%s | Write/chunk=7 | kind-binary=true len=4097", cfg))
				}
				c.Note("every payload length in [0,130], around 1x/2x/3x the write buffer, 65530..65541, 100000 (thorough 1MiB) x kind x write path/chunking; %s", map[string]string{"C13": "each emitted stream read back by a second real Conn under whole / 1-byte / every single (thorough: every pair of) short-read fragmentation, read buffers {default,16}, ReadMessage and NextReader+Read", "C14": "emitted bytes compared with the reference encoder's single frame"}[prop])
			})
		}
	}
	// sequences of 2-3 messages on one connection (state carried between messages: frame type, pooled buffer, positions)
	for _, prop := range []string{"C13", "C14"} {
		prop := prop
		register(prop, "sequences", false, func(c *Ctx) {
			var distinct, n int64
			for _, cfg := range cfgs {
				wb := cfg.wb
				if wb == 0 {
					wb = 4096
				}
				lens := []int{0, 1, 125, 126, wb, wb + 9, wb + 10, 2*(wb+9) + 1}
				paths := []wtPath{{api: "WriteMessage"}, {api: "Write"}, {api: "Write", chunk: 7}, {api: "ReadFrom"}, {api: "WriteString"}}
				maxSeq := Pick(c, 2, 3)
				var rec func(seq []wtMsg, ps []wtPath)
				rec = func(seq []wtMsg, ps []wtPath) {
					if len(seq) >= 2 {
						seqc, psc := append([]wtMsg(nil), seq...), append([]wtPath(nil), ps...)
						id := fmt.Sprintf("%s | seq %s via %v", cfg, fmtWtMsgs(seqc), psc)
						distinct++
						c.Case(id, func() []string {
							st := newFakeStream(nil)
							conn := newWriterConn(cfg, st)
							var want []byte
							for i, m := range seqc {
								if err := wtWrite(conn, psc[i], m); err != nil {
									return []string{fmt.Sprintf("write-error[sequence server=%v]: %v (%s)", cfg.server, err, id)}
								}
								want = append(want, wtEncode(m, 0)...)
							}
							n++
							if prop == "C14" {
								if !bytes.Equal(st.out, want) {
									d := wtDecode(st.out)
									return []string{fmt.Sprintf("wire-format[sequence server=%v]: emitted frames %s, expected one frame per message %s (%s)", cfg.server, fmtWtMsgs(d.Msgs), fmtWtMsgs(seqc), id)}
								}
								return nil
							}
							for _, mode := range []wtReadMode{{api: "ReadMessage"}, {rb: 16, chunk: 1, api: "Read5"}, {chunk: 3, api: "ReadMessage"}} {
								got, err, _, _ := wtReadAll(st.out, mode, 0)
								if !wtMsgsEqual(got, seqc) {
									return []string{fmt.Sprintf("round-trip[sequence server=%v]: wrote %s, peer read %s then %v (%s)", cfg.server, fmtWtMsgs(seqc), fmtWtMsgs(got), err, id)}
								}
							}
							return nil
						})
					}
					if len(seq) == maxSeq {
						return
					}
					for li, ln := range lens {
						// alternate kinds and paths deterministically; full product of lengths
						for _, bin := range []bool{false, true} {
							p := paths[(li+len(seq)+b2i(bin))%len(paths)]
							rec(append(seq, wtMsg{bin, wtPayload(ln, bin)}), append(ps, p))
						}
					}
				}
				rec(nil, nil)
			}
			c.Res.Distinct = distinct
			c.Res.States += distinct
			c.Res.Transitions += n
			c.Note("all sequences of 2 (thorough 3) messages over 8 boundary lengths x both kinds with rotating write paths on one connection, every writer configuration")
		})
	}
	// prepared messages: several prepared first, written afterwards (a broadcast prepares once and writes many times)
	for _, prop := range []string{"C13", "C14"} {
		prop := prop
		register(prop, "prepared-later", false, func(c *Ctx) {
			var distinct int64
			lens := []int{0, 5, 125, 126, 200, 4096, 65536}
			for _, server := range []bool{true, false} {
				for _, la := range lens {
					for _, lb := range lens {
						for _, order := range []string{"A,B", "B,A", "A,B,A", "A,A"} {
							id := fmt.Sprintf("prepared later server=%v | prepare text:%d then binary:%d, write %s", server, la, lb, order)
							distinct++
							c.Case(id, func() []string {
								ma, mb := wtMsg{false, wtPayload(la, false)}, wtMsg{true, wtPayload(lb, true)}
								pa, err1 := wt.NewPreparedMessage(wt.TextMessage, append([]byte(nil), ma.Data...))
								pb, err2 := wt.NewPreparedMessage(wt.BinaryMessage, append([]byte(nil), mb.Data...))
								if err1 != nil || err2 != nil {
									return []string{fmt.Sprintf("write-error[prepared-later]: %v %v (%s)", err1, err2, id)}
								}
								// each prepared message goes to two connections (its frame is built on first use)
								var fails []string
								for conn := 0; conn < 2; conn++ {
									st := newFakeStream(nil)
									c1 := wt.NewConn(nil, st, server, 0, 0, nil, nil, nil)
									var want []wtMsg
									for _, w := range strings.Split(order, ",") {
										pm, m := pa, ma
										if w == "B" {
											pm, m = pb, mb
										}
										if err := c1.WritePreparedMessage(pm); err != nil {
											return []string{fmt.Sprintf("write-error[prepared-later]: %v (%s)", err, id)}
										}
										want = append(want, m)
									}
									if prop == "C14" {
										var wb []byte
										for _, m := range want {
											wb = append(wb, wtEncode(m, 0)...)
										}
										if !bytes.Equal(st.out, wb) {
											d := wtDecode(st.out)
											fails = append(fails, fmt.Sprintf("wire-format[prepared-later server=%v]: connection %d emitted %s tail=%s, expected %s (%s)", server, conn+1, fmtWtMsgs(d.Msgs), d.Tail, fmtWtMsgs(want), id))
										}
										continue
									}
									got, rerr, _, _ := wtReadAll(st.out, wtReadMode{api: "ReadMessage"}, 0)
									if !wtMsgsEqual(got, want) {
										fails = append(fails, fmt.Sprintf("round-trip[prepared-later server=%v]: connection %d: wrote prepared %s, peer read %s then %v (%s)", server, conn+1, fmtWtMsgs(want), fmtWtMsgs(got), rerr, id))
									}
								}
								return fails
							})
						}
					}
				}
			}
			c.Res.Distinct = distinct
			c.Res.States += distinct
			c.Res.Transitions += distinct
			c.Note("two prepared messages built first and written afterwards in every order (also twice, also to a second connection): each write emits that message's own frame")
		})
	}
	// a writer that has been closed stays closed: a late Close or Write on it has no effect on the message
	// the next writer is building
	for _, prop := range []string{"C13", "C14"} {
		prop := prop
		register(prop, "stale-writer", false, func(c *Ctx) {
			var distinct, n int64
			for _, cfg := range cfgs {
				wb := cfg.wb
				if wb == 0 {
					wb = 4096
				}
				for _, l1 := range []int{0, 5, wb + 10} {
					for _, l2 := range []int{2, 126, wb + 10, 2*(wb+9) + 2} {
						for _, late := range []string{"close", "write", "write+close"} {
							cfg := cfg
							id := fmt.Sprintf("%s | stale writer: message text:%d closed, message binary:%d half written, then late %s on the first writer", cfg, l1, l2, late)
							distinct++
							c.Case(id, func() []string {
								st := newFakeStream(nil)
								conn := newWriterConn(cfg, st)
								m1, m2 := wtMsg{false, wtPayload(l1, false)}, wtMsg{true, wtPayload(l2, true)}
								w1, err := conn.NextWriter(wt.TextMessage)
								if err != nil {
									return []string{fmt.Sprintf("write-error[stale-writer]: %v (%s)", err, id)}
								}
								w1.Write(m1.Data)
								if err := w1.Close(); err != nil {
									return []string{fmt.Sprintf("write-error[stale-writer]: %v (%s)", err, id)}
								}
								w2, err := conn.NextWriter(wt.BinaryMessage)
								if err != nil {
									return []string{fmt.Sprintf("write-error[stale-writer]: %v (%s)", err, id)}
								}
								half := l2 / 2
								w2.Write(m2.Data[:half])
								var fails []string
								cls := fmt.Sprintf("[stale-writer late=%s server=%v]", late, cfg.server)
								if late != "close" {
									w1.Write([]byte("STALE")) // (whatever it returns: it may not reach the peer)
								}
								if late != "write" {
									w1.Close() // (its result is not specified; its effect is: none)
								}
								if _, err := w2.Write(m2.Data[half:]); err != nil {
									fails = append(fails, fmt.Sprintf("write-error%s: the current writer failed after a late call on the previous one: %v (%s)", cls, err, id))
								}
								if err := w2.Close(); err != nil {
									fails = append(fails, fmt.Sprintf("write-error%s: closing the current writer failed after a late call on the previous one: %v (%s)", cls, err, id))
								}
								n++
								if prop == "C14" {
									want := append(wtEncode(m1, 0), wtEncode(m2, 0)...)
									if !bytes.Equal(st.out, want) {
										d := wtDecode(st.out)
										fails = append(fails, fmt.Sprintf("wire-format%s: emitted frames %s tail=%s, expected one frame per message %s (%s)", cls, fmtWtMsgs(d.Msgs), d.Tail, fmtWtMsgs([]wtMsg{m1, m2}), id))
									}
									return fails
								}
								got, rerr, _, _ := wtReadAll(st.out, wtReadMode{api: "ReadMessage"}, 0)
								if !wtMsgsEqual(got, []wtMsg{m1, m2}) {
									fails = append(fails, fmt.Sprintf("round-trip%s: wrote %s, peer read %s then %v (%s)", cls, fmtWtMsgs([]wtMsg{m1, m2}), fmtWtMsgs(got), rerr, id))
								}
								return fails
							})
						}
					}
				}
			}
			c.Res.Distinct = distinct
			c.Res.States += distinct
			c.Res.Transitions += n
			c.Note("message 1 written and closed, message 2 half written through the next writer, then a late Close / Write / both on the first writer, then message 2 completed: the peer reads exactly the two messages; every writer configuration x 3 x 4 lengths")
		})
	}
	// two connections sharing one buffer pool: while the stream of the first is still inside Write (a slow
	// stream: the bytes are consumed when the call completes), the second writes a message of its own
	for _, prop := range []string{"C13", "C14"} {
		prop := prop
		register(prop, "shared-pool", false, func(c *Ctx) {
			var distinct, n int64
			paths := []wtPath{{api: "WriteMessage"}, {api: "Write"}, {api: "Write", chunk: 7}, {api: "ReadFrom"}, {api: "WriteString"}}
			for _, server := range []bool{true, false} {
				for _, wb := range []int{0, 16} {
					w := wb
					if w == 0 {
						w = 4096
					}
					lens := []int{1, 20, 125, 126, w, w + 10, 2*(w+9) + 1}
					for _, la := range lens {
						for _, lb := range lens {
							for pi, pa := range paths {
								pb := paths[(pi+1)%len(paths)]
								for _, pbb := range []wtPath{pa, pb} {
									ma, mb := wtMsg{false, wtPayload(la, false)}, wtMsg{true, wtPayload(lb, true)}
									id := fmt.Sprintf("shared pool server=%v wb=%d | A text:%d via %s | B binary:%d via %s during A's stream write", server, wb, la, pa, lb, pbb)
									distinct++
									pbb := pbb
									c.Case(id, func() []string {
										pool := &lifoPool{}
										st1, st2 := newFakeStream(nil), newFakeStream(nil)
										c1 := wt.NewConn(nil, st1, server, 0, wb, pool, nil, nil)
										c2 := wt.NewConn(nil, st2, server, 0, wb, pool, nil, nil)
										var errB error
										fired := false
										st1.onWrite = func(int) {
											if fired {
												return
											}
											fired = true
											errB = wtWrite(c2, pbb, mb)
										}
										if err := wtWrite(c1, pa, ma); err != nil || errB != nil {
											return []string{fmt.Sprintf("write-error[shared-pool server=%v]: A: %v B: %v (%s)", server, err, errB, id)}
										}
										// then each writes once more, one after the other
										if err := wtWrite(c1, pa, mb); err != nil {
											return []string{fmt.Sprintf("write-error[shared-pool server=%v]: second message of A's connection: %v (%s)", server, err, id)}
										}
										n++
										want1 := append(wtEncode(ma, 0), wtEncode(mb, 0)...)
										want2 := wtEncode(mb, 0)
										if prop == "C14" {
											if !bytes.Equal(st1.out, want1) || !bytes.Equal(st2.out, want2) {
												d1, d2 := wtDecode(st1.out), wtDecode(st2.out)
												return []string{fmt.Sprintf("wire-format[shared-pool server=%v]: connection 1 emitted %s tail=%s (expected %s), connection 2 emitted %s tail=%s (expected %s) (%s)", server, fmtWtMsgs(d1.Msgs), d1.Tail, fmtWtMsgs([]wtMsg{ma, mb}), fmtWtMsgs(d2.Msgs), d2.Tail, fmtWtMsgs([]wtMsg{mb}), id)}
											}
											return nil
										}
										g1, e1, _, _ := wtReadAll(st1.out, wtReadMode{api: "ReadMessage"}, 0)
										g2, e2, _, _ := wtReadAll(st2.out, wtReadMode{api: "ReadMessage"}, 0)
										if !wtMsgsEqual(g1, []wtMsg{ma, mb}) || !wtMsgsEqual(g2, []wtMsg{mb}) {
											return []string{fmt.Sprintf("round-trip[shared-pool server=%v]: peer of connection 1 read %s then %v (written %s), peer of connection 2 read %s then %v (written %s) (%s)", server, fmtWtMsgs(g1), e1, fmtWtMsgs([]wtMsg{ma, mb}), fmtWtMsgs(g2), e2, fmtWtMsgs([]wtMsg{mb}), id)}
										}
										return nil
									})
								}
							}
						}
					}
				}
			}
			c.Res.Distinct = distinct
			c.Res.States += distinct
			c.Res.Transitions += n
			c.Note("two connections on one buffer pool: connection 2 writes a whole message while connection 1's stream is still inside Write (its bytes are consumed when the call completes); 7 boundary lengths squared x write paths x server/client x write buffer {default,16}")
		})
	}
	// a stream write that fails (after accepting none / some of the bytes) ends the frame sequence: every later
	// write on the connection, whatever the path, must fail and put nothing on the stream
	register("C14", "write-fault", false, func(c *Ctx) {
		var distinct, n int64
		paths := []wtPath{{api: "WriteMessage"}, {api: "Write"}, {api: "Write", chunk: 7}, {api: "ReadFrom"}, {api: "WriteString"}, {api: "Prepared"}}
		for _, server := range []bool{true, false} {
			for _, wb := range []int{0, 16} {
				w := wb
				if w == 0 {
					w = 4096
				}
				for _, ln := range []int{0, 5, 126, w + 10, 2*(w+9) + 1} {
					for _, p1 := range paths {
						for _, p2 := range paths {
							for _, partial := range []int{0, 1, 3, 1 << 30} {
								for failCall := 0; failCall < 3; failCall++ {
									id := fmt.Sprintf("write fault server=%v wb=%d len=%d first=%s then=%s stream-write#%d accepts %d bytes", server, wb, ln, p1, p2, failCall, partial)
									distinct++
									c.Case(id, func() []string {
										st := newFakeStream(nil)
										st.wrFail, st.wrPartial = failCall, partial
										conn := wt.NewConn(nil, st, server, 0, wb, nil, nil, nil)
										m := wtMsg{false, wtPayload(ln, false)}
										var firstErr error
										for i := 0; i < 3 && firstErr == nil; i++ {
											firstErr = wtWrite(conn, p1, m)
										}
										if firstErr == nil {
											return nil // the fault was never reached (fewer stream writes than failCall)
										}
										n++
										before := len(st.out)
										cls := fmt.Sprintf("[then=%s server=%v]", p2.api, server)
										var fails []string
										for i := 0; i < 2; i++ {
											wtWrite(conn, p2, wtMsg{true, wtPayload(7, true)}) // (whatever it reports: nothing may follow the torn frame)
										}
										if len(st.out) != before {
											fails = append(fails, fmt.Sprintf("bytes-after-torn-frame%s: %d more bytes reached the stream after a stream write had failed (%v): the stream is no longer a sequence of frames (%s)", cls, len(st.out)-before, firstErr, id))
										}
										return fails
									})
								}
							}
						}
					}
				}
			}
		}
		c.Res.Distinct = distinct
		c.Res.States += distinct
		c.Res.Transitions += n
		c.Note("a stream write failing at call index 0..2 after accepting {0,1,3,all} bytes, under every first/second write path pair: later writes fail and add nothing to the stream")
	})
	// C14 decoder side: reference-encoded streams (incl. non-minimal length forms, zero-length payloads)
	register("C14", "decode-reference-streams", false, func(c *Ctx) {
		lens := []int{0, 1, 2, 125, 126, 127, 128, 255, 256, 4095, 4096, 4097, 65535, 65536, 65537}
		var distinct, n int64
		type fm struct {
			m    wtMsg
			form int
		}
		var items []fm
		for _, ln := range lens {
			for _, bin := range []bool{false, true} {
				for form := 0; form < 3; form++ {
					if form == 1 && ln >= 65536 {
						continue
					}
					items = append(items, fm{wtMsg{bin, wtPayload(ln, bin)}, form})
				}
			}
		}
		small := items
		if !c.Thorough() {
			small = nil
			for _, it := range items {
				if len(it.m.Data) <= 256 || len(it.m.Data) == 65536 {
					small = append(small, it)
				}
			}
		}
		check := func(seq []fm) {
			var stream []byte
			var want []wtMsg
			desc := ""
			for _, it := range seq {
				stream = append(stream, wtEncode(it.m, it.form)...)
				want = append(want, it.m)
				desc += fmt.Sprintf("(%s form%d)", fmtWtMsgs([]wtMsg{it.m}), it.form)
			}
			id := "decode " + desc
			distinct++
			c.Case(id, func() []string {
				modes := []wtReadMode{{api: "ReadMessage"}, {rb: 16, chunk: 1, api: "Read5"}, {api: "ReadMessage", eofWith: true}, {api: "Read64K", eofWith: true}}
				if len(stream) <= 600 {
					for o := 1; o < len(stream) && o < 40; o++ {
						modes = append(modes, wtReadMode{plan: []int{o}, api: "ReadMessage"})
					}
				}
				for _, mode := range modes {
					n++
					got, err, _, _ := wtReadAll(stream, mode, 0)
					if !wtMsgsEqual(got, want) {
						forms := ""
						for _, it := range seq {
							forms += fmt.Sprint(it.form)
						}
						return []string{fmt.Sprintf("decode[forms=%s]: reference stream %s decoded to %s then %v (read side %s)", forms, desc, fmtWtMsgs(got), err, mode)}
					}
				}
				return nil
			})
		}
		for _, a := range items {
			check([]fm{a})
		}
		for _, a := range small {
			for _, b := range small {
				check([]fm{a, b})
			}
		}
		c.Res.Distinct = distinct
		c.Res.States += distinct
		c.Res.Transitions += n
		c.Sample("decode (binary:126 form2)(text:0 form1)")
		c.Note("reference-encoded streams of 1-2 frames over boundary lengths x kinds x {minimal, forced 16-bit, forced 64-bit} length forms, read under whole / 1-byte / single short-read fragmentation")
	})
	registerC15()
}

func b2i(b bool) int {
	if b {
		return 1
	}
	return 0
}

var _ = errors.New
