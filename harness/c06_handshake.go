package harness

import (
	"bytes"
	"fmt"
	"io"
	"net/http"
	"sort"
	"strings"
	"time"

	"github.com/zishang520/engine.io/v2/config"
	"github.com/zishang520/engine.io/v2/types"
	"verifrt/vsched"
)

// C06 — handshake. Product of server options x handshake carrier; per server
// three consecutive sessions. Oracle written from the statement.

type hsCfg struct {
	interval, timeout time.Duration
	maxPayload        int64
	transports        []string
	allowUpgrades     bool
	allowEIO3         bool
	initial           int // 0 nil, 1 text, 2 binary
	cookie            bool
}

func (c hsCfg) String() string {
	return fmt.Sprintf("I=%v T=%v max=%d tr=%s upg=%v eio3=%v init=%d cookie=%v", c.interval, c.timeout, c.maxPayload, strings.Join(c.transports, "+"), c.allowUpgrades, c.allowEIO3, c.initial, c.cookie)
}

func (c hsCfg) opts() *config.ServerOptions {
	o := config.DefaultServerOptions()
	o.SetPingInterval(c.interval)
	o.SetPingTimeout(c.timeout)
	o.SetMaxHttpBufferSize(c.maxPayload)
	o.SetTransports(types.NewSet(c.transports...))
	o.SetAllowUpgrades(c.allowUpgrades)
	o.SetAllowEIO3(c.allowEIO3)
	switch c.initial {
	case 1:
		o.SetInitialPacket(strings.NewReader("hello €"))
	case 2:
		o.SetInitialPacket(bytes.NewReader([]byte{0, 1, 0xff}))
	}
	if c.cookie {
		o.SetCookie(&http.Cookie{Name: "io", Path: "/"})
	}
	return o
}

type carrier struct {
	transport string // polling | websocket
	eio       int
	b64       bool
	jsonp     bool
}

func (k carrier) String() string {
	return fmt.Sprintf("%s/EIO%d/b64=%v/jsonp=%v", k.transport, k.eio, k.b64, k.jsonp)
}

func has(list []string, s string) bool {
	for _, x := range list {
		if x == s {
			return true
		}
	}
	return false
}

func handshakeBody(cfg hsCfg, carriers []carrier, overlap bool) vsched.Body {
	return func(x *vsched.Exec) {
		w := NewWorld(x, cfg.opts())
		seen := map[string]bool{}
		type later struct {
			pc   *PollClient
			i    int
			k    carrier
			what string
		}
		var laters []later
		for i, k := range carriers {
			fp := "[" + k.transport + "]"
			what := fmt.Sprintf("session %d via %s, %s", i+1, k, cfg)
			connBefore := len(w.Socks)
			var pkts []Pkt
			var err error
			var ws *WSClient
			if k.transport == "polling" {
				pc := &PollClient{W: w, EIO: k.eio, B64: k.b64}
				if k.jsonp {
					pc.JSONP = "7"
				}
				r := pc.Get()
				x.Settle()
				if !r.Returned || r.Code != 200 {
					x.Fail("handshake-refused%s: status %d body %s returned=%v (%s)", fp, r.Code, bodyPreview(r.Body), r.Returned, what)
					return
				}
				pkts, err = pc.DecodeResp(r)
				if err == nil && cfg.initial != 0 && len(pkts) > 0 {
					// the open packet answers the handshake request; what follows arrives with the next poll
					if open, e := ParseOpen(pkts[0]); e == nil && len(pkts) == 1 && overlap {
						// overlapped mode: every session handshakes before any of them polls
						pc.Sid, _ = open["sid"].(string)
						laters = append(laters, later{pc, i, k, what})
					} else if e == nil && len(pkts) == 1 {
						pc.Sid, _ = open["sid"].(string)
						r2 := pc.Get()
						x.Settle()
						var more []Pkt
						more, err = pc.DecodeResp(r2)
						pkts = append(pkts, more...)
					}
				}
			} else if k.transport == "webtransport" {
				wc := w.DialWT(0)
				wc.Handshake()
				x.Settle()
				pkts, err = wc.Pkts()
			} else {
				ws = w.DialWS(k.eio, "", k.b64, false, "")
				x.Settle()
				if !ws.Ready() {
					x.Fail("handshake-refused%s: status %d body %s (%s)", fp, ws.Resp.Code, bodyPreview(ws.Resp.Body), what)
					return
				}
				pkts, err = ws.Pkts()
			}
			if err != nil {
				x.Fail("handshake-undecodable%s: %v (%s)", fp, err, what)
				return
			}
			if len(w.Socks) != connBefore+1 {
				x.Fail("connection-events%s: %d connection events for one handshake (%s)", fp, len(w.Socks)-connBefore, what)
				return
			}
			rec := w.Socks[len(w.Socks)-1]
			if rec.Events[0].State != "open" {
				x.Fail("connection-state%s: session handed over in state %q (%s)", fp, rec.Events[0].State, what)
			}
			if seen[rec.Id] {
				x.Fail("sid-reused%s: %s (%s)", fp, rec.Id, what)
			}
			seen[rec.Id] = true
			if n := w.Srv.ClientsCount(); n != uint64(i+1) {
				x.Fail("registry-count%s: ClientsCount=%d after %d handshakes (%s)", fp, n, i+1, what)
			}
			if s, ok := w.Srv.Clients().Load(rec.Id); !ok || s.Id() != rec.Id {
				x.Fail("registry-entry%s: session not reachable under its id (%s)", fp, what)
			}
			if len(pkts) == 0 {
				x.Fail("no-open-packet%s: nothing received (%s)", fp, what)
				return
			}
			open, err := ParseOpen(pkts[0])
			if err != nil {
				x.Fail("no-open-packet%s: %v (%s)", fp, err, what)
				return
			}
			if open["sid"] != rec.Id {
				x.Fail("open-sid%s: open packet sid %v, session id %s (%s)", fp, open["sid"], rec.Id, what)
			}
			num := func(k string) int64 { f, _ := open[k].(float64); return int64(f) }
			if num("pingInterval") != int64(cfg.interval/time.Millisecond) || num("pingTimeout") != int64(cfg.timeout/time.Millisecond) {
				x.Fail("open-timing%s: open packet %v/%v ms, configured %v/%v (%s)", fp, open["pingInterval"], open["pingTimeout"], cfg.interval, cfg.timeout, what)
			}
			if num("maxPayload") != cfg.maxPayload {
				x.Fail("open-maxpayload%s: %v, configured %d (%s)", fp, open["maxPayload"], cfg.maxPayload, what)
			}
			var got []string
			if l, ok := open["upgrades"].([]any); ok {
				for _, u := range l {
					got = append(got, fmt.Sprint(u))
				}
			} else {
				x.Fail("open-upgrades%s: upgrades is %T, not a list (%s)", fp, open["upgrades"], what)
			}
			var want []string
			if k.transport == "polling" && cfg.allowUpgrades {
				for _, u := range []string{"websocket", "webtransport"} {
					if has(cfg.transports, u) {
						want = append(want, u)
					}
				}
			}
			sort.Strings(got)
			sort.Strings(want)
			if fmt.Sprint(got) != fmt.Sprint(want) {
				x.Fail("open-upgrades%s: advertised %v, expected %v (%s)", fp, got, want, what)
			}
			rest := pkts[1:]
			if overlap && k.transport == "polling" && cfg.initial != 0 && len(rest) == 0 {
				// checked after all handshakes
			} else if cfg.initial != 0 {
				wantInit := Msg("hello €")
				if cfg.initial == 2 {
					wantInit = MsgBin([]byte{0, 1, 0xff})
				}
				if len(rest) == 0 || !pktEqual(rest[0], wantInit) {
					x.Fail("initial-packet%s: after the open packet got %s, expected first message %s (session %d of the server) (%s)", fp, fmtPkts(rest), wantInit, i+1, what)
				}
			} else if len(rest) != 0 {
				x.Fail("extra-packets%s: unexpected packets after open: %s (%s)", fp, fmtPkts(rest), what)
			}
			wantProto := 3
			if k.eio == 4 {
				wantProto = 4
			}
			if rec.Sock.Protocol() != wantProto {
				x.Fail("protocol%s: Protocol()=%d for EIO=%d (%s)", fp, rec.Sock.Protocol(), k.eio, what)
			}
			if rec.Sock.Transport().Name() != k.transport {
				x.Fail("transport-name%s: %s (%s)", fp, rec.Sock.Transport().Name(), what)
			}
		}
		for _, l := range laters {
			r2 := l.pc.Get()
			x.Settle()
			more, err := l.pc.DecodeResp(r2)
			wantInit := Msg("hello €")
			if cfg.initial == 2 {
				wantInit = MsgBin([]byte{0, 1, 0xff})
			}
			if err != nil || len(more) == 0 || !pktEqual(more[0], wantInit) {
				x.Fail("initial-packet[polling overlapped]: first poll of session %d (after all handshakes) returned %s err=%v, expected first message %s (%s)", l.i+1, fmtPkts(more), err, wantInit, l.what)
			}
		}
		x.Outcome = fmt.Sprintf("%d sessions", len(w.Socks))
	}
}

var _ = io.EOF

func init() {
	register("C06", "product", false, func(c *Ctx) {
		intervals := Pick(c, []time.Duration{25 * time.Second, 300 * time.Millisecond}, []time.Duration{25 * time.Second, 300 * time.Millisecond, time.Hour})
		timeouts := Pick(c, []time.Duration{20 * time.Second, 200 * time.Millisecond}, []time.Duration{20 * time.Second, 200 * time.Millisecond, time.Millisecond})
		maxes := Pick(c, []int64{1e6, 100}, []int64{1e6, 100, 1})
		sets := [][]string{{"polling"}, {"websocket"}, {"polling", "websocket"}, {"polling", "webtransport"}, {"websocket", "webtransport"}, {"polling", "websocket", "webtransport"}, {"webtransport"}}
		n := 0
		for _, iv := range intervals {
			for _, to := range timeouts {
				for _, mx := range maxes {
					for _, set := range sets {
						for _, upg := range []bool{true, false} {
							for _, eio3 := range []bool{false, true} {
								for init := 0; init < 3; init++ {
									for _, ck := range []bool{false, true} {
										cfg := hsCfg{iv, to, mx, set, upg, eio3, init, ck}
										var ks []carrier
										for _, tr := range []string{"polling", "websocket"} {
											if !has(set, tr) {
												continue
											}
											for _, eio := range []int{4, 3} {
												if eio == 3 && !eio3 {
													continue
												}
												ks = append(ks, carrier{tr, eio, false, false})
												if tr == "polling" {
													// (a revision-3 JSONP client asks for base64: binary cannot travel in a script)
													ks = append(ks, carrier{tr, eio, true, false}, carrier{tr, eio, eio == 3, true})
												} else if c.Thorough() {
													ks = append(ks, carrier{tr, eio, true, false})
												}
											}
										}
										if has(set, "webtransport") {
											ks = append([]carrier{{"webtransport", 4, false, false}}, ks...)
										}
										if len(ks) == 0 {
											continue
										}
										// three consecutive sessions per server: every rotation start (quick: 2 starts)
										starts := len(ks)
										if !c.Thorough() && starts > 2 {
											starts = 2
										}
										for s := 0; s < starts; s++ {
											seq := []carrier{ks[s%len(ks)], ks[(s+1)%len(ks)], ks[(s+2)%len(ks)]}
											id := fmt.Sprintf("%s | %v", cfg, seq)
											n++
											c.Once(id, handshakeBody(cfg, seq, false))
											if cfg.initial != 0 && has(set, "polling") {
												n++
												c.Once(id+" overlapped", handshakeBody(cfg, seq, true))
											}
											if n%997 == 1 {
												c.Sample(id)
											}
										}
									}
								}
							}
						}
					}
				}
			}
		}
		c.Res.Distinct = int64(n)
		c.Note("server option product x 3 consecutive handshakes per server over admitted carriers (polling xhr/b64/jsonp, websocket) and revisions")
	})
}

// Two (three) handshakes submitted together, every interleaving of their handlers and send goroutines up to
// the bound: each response's open packet names the session that was created for that very request.
func togetherBody(n int, jsonp bool) vsched.Body {
	return func(x *vsched.Exec) {
		o := config.DefaultServerOptions()
		w := NewWorld(x, o)
		var pcs []*PollClient
		var rs []*Resp
		for i := 0; i < n; i++ {
			pc := &PollClient{W: w, EIO: 4}
			if jsonp {
				pc.JSONP = fmt.Sprint(i)
			}
			pcs = append(pcs, pc)
			rs = append(rs, pc.Get())
		}
		x.Run(x.Now() + time.Second)
		for _, t := range x.Panics() {
			x.Fail("panic[handshakes together]: thread %s: %v", t.Name, t.Panic)
		}
		if len(w.Socks) != n {
			x.Fail("connection-events[together]: %d connection events for %d handshakes", len(w.Socks), n)
			return
		}
		seen := map[string]bool{}
		for i, r := range rs {
			pk, err := pcs[i].DecodeResp(r)
			if err != nil || len(pk) == 0 || !r.wrote {
				x.Fail("handshake-undecodable[together]: handshake %d: wrote=%v err=%v", i+1, r.wrote, err)
				continue
			}
			open, err := ParseOpen(pk[0])
			if err != nil {
				x.Fail("no-open-packet[together]: handshake %d: %v", i+1, err)
				continue
			}
			sid, _ := open["sid"].(string)
			// the session created for this request
			mine := -1
			for si, rec := range w.Socks {
				if rc := rec.Sock.Request(); rc != nil && rc.Request() == r.Req {
					mine = si
				}
			}
			if mine < 0 {
				x.Fail("connection-events[together]: no session was created for handshake request %d", i+1)
				continue
			}
			if sid != w.Socks[mine].Id {
				whose := "no session"
				for si, rec := range w.Socks {
					if rec.Id == sid {
						whose = fmt.Sprintf("the session created for another request (#%d)", si+1)
					}
				}
				x.Fail("open-sid[together]: the open packet answering handshake request %d names %s, not the session created for it", i+1, whose)
			}
			if seen[sid] {
				x.Fail("sid-reused[together]: two handshake responses name the same session")
			}
			seen[sid] = true
			if s, ok := w.Srv.Clients().Load(w.Socks[mine].Id); !ok || s.Id() != w.Socks[mine].Id {
				x.Fail("registry-entry[together]: session %d not reachable under its id", mine+1)
			}
		}
		if c := w.Srv.ClientsCount(); c != uint64(n) {
			x.Fail("registry-count[together]: ClientsCount=%d after %d handshakes", c, n)
		}
		x.Outcome = fmt.Sprintf("%d sessions", len(w.Socks))
	}
}

func init() {
	register("C06", "together", false, func(c *Ctx) {
		c.ExploreDev("two polling handshakes together", Pick(c, 1, 2), Pick(c, 3, 5), togetherBody(2, false))
		c.ExploreDev("two JSONP handshakes together", Pick(c, 1, 2), Pick(c, 3, 5), togetherBody(2, true))
		if c.Thorough() {
			c.ExploreDev("three polling handshakes together", 1, 3, togetherBody(3, false))
		}
		c.Res.Distinct = 2
		c.Note("two (thorough: also three) handshake requests submitted together, every interleaving of the handlers and send goroutines up to the bound: the open packet of each response carries the id of the session created for that request; one registry entry each")
	})
}
