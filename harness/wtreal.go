package harness

import (
	"context"
	"io"
	"net/http"
	"net/http/httptest"
	"sync"
	"time"

	"github.com/quic-go/quic-go"
	"github.com/quic-go/quic-go/http3"
	"github.com/zishang520/engine.io/v2/types"
	wtgo "github.com/zishang520/webtransport-go"
	"verifrt/vsched"
)

// Driving the real WebTransport session handler (engine.Server.OnWebTransportSession)
// without a QUIC stack: a real, initialised webtransport-go Server; an HTTP/3
// response writer fake that answers Hijacker / HTTPStreamer / Flusher; the client's
// bidirectional stream is handed to the server's own StreamHijacker.

type wtTracingConn struct {
	fakeQConn
	ctx context.Context
}

func (c wtTracingConn) Context() context.Context { return c.ctx }
func (c wtTracingConn) Settings() *http3.Settings {
	return &http3.Settings{EnableDatagrams: true, EnableExtendedConnect: true}
}

// blockingReqStream is the request stream of a live session: reads block until it is closed.
type blockingReqStream struct {
	fakeReqStream
	once  sync.Once
	block chan struct{}
}

func (r *blockingReqStream) Read(p []byte) (int, error) {
	<-r.block
	return 0, io.EOF
}
func (r *blockingReqStream) unblock() { r.once.Do(func() { close(r.block) }) }
func (r *blockingReqStream) Close() error {
	r.unblock()
	return r.fakeReqStream.Close()
}
func (r *blockingReqStream) CancelRead(quic.StreamErrorCode) { r.unblock() }

type wtRealWriter struct {
	r    *Resp
	conn wtTracingConn
	req  *blockingReqStream
}

func (w *wtRealWriter) Header() http.Header { return w.r.hdr }
func (w *wtRealWriter) WriteHeader(code int) {
	w.r.HeaderCalls++
	if !w.r.wrote {
		w.r.wrote = true
		w.r.Code = code
		w.r.Hdr = w.r.hdr.Clone()
	}
}
func (w *wtRealWriter) Write(b []byte) (int, error) {
	if !w.r.wrote {
		w.WriteHeader(200)
		w.r.HeaderCalls--
	}
	w.r.Body = append(w.r.Body, b...)
	return len(b), nil
}
func (w *wtRealWriter) Flush()                       {}
func (w *wtRealWriter) Connection() http3.Connection { return w.conn }
func (w *wtRealWriter) HTTPStream() http3.Stream      { return w.req }

// quicStream presents a fakeStream as a quic.Stream.
type quicStream struct{ f *fakeStream }

func (q quicStream) Read(p []byte) (int, error)       { return q.f.Read(p) }
func (q quicStream) Write(p []byte) (int, error)      { return q.f.Write(p) }
func (q quicStream) Close() error                     { return q.f.Close() }
func (q quicStream) StreamID() quic.StreamID          { return 4 }
func (q quicStream) CancelRead(quic.StreamErrorCode)  { q.f.closed = true }
func (q quicStream) CancelWrite(quic.StreamErrorCode) { q.f.closed = true }
func (q quicStream) Context() context.Context         { return context.Background() }
func (q quicStream) SetReadDeadline(time.Time) error  { return nil }
func (q quicStream) SetWriteDeadline(time.Time) error { return nil }
func (q quicStream) SetDeadline(time.Time) error      { return nil }

var wtTracingSeq uint64

// DialWTHandler starts the real session handler for a new WebTransport connection and returns
// its client end. The client's stream is offered to the server when Connect is called.
func (w *World) DialWTHandler(srv *wtgo.Server) *WTClient {
	wtTracingSeq++
	tid := quic.ConnectionTracingID(wtTracingSeq)
	fs := newFakeStream([]byte{0x00}) // the stream starts with the session id (= id of the request stream, 0)
	fs.live = true
	req := &blockingReqStream{block: make(chan struct{})}
	req.bound = fs
	r := &Resp{Desc: "CONNECT webtransport", hdr: http.Header{}, w: w}
	w.Resps = append(w.Resps, r)
	rw := &wtRealWriter{r: r, conn: wtTracingConn{ctx: context.WithValue(context.Background(), quic.ConnectionTracingKey, tid)}, req: req}
	hreq := httptest.NewRequest("CONNECT", "/engine.io/?EIO=4&transport=webtransport", nil)
	hreq.Proto = "webtransport"
	hreq.Header.Set("Sec-Webtransport-Http3-Draft02", "1")
	rctx, cancel := context.WithCancel(context.Background())
	hreq = hreq.WithContext(rctx)
	r.Req = hreq
	r.cancel = func() { cancel(); vsched.NoteClosed(rctx.Done()) }
	ctx := types.NewHttpContext(rw, hreq)
	c := &WTClient{W: w, Stream: fs, Sess: &fakeSession{Req: &req.fakeReqStream}, Ctx: ctx}
	c.connect = func() {
		// what the HTTP/3 server does when the client opens a bidirectional WebTransport stream
		srv.H3.StreamHijacker(0x41, tid, quicStream{fs}, nil)
	}
	vsched.GoNamed("wt-session-handler", func() {
		defer func() {
			if p := recover(); p != nil {
				r.Panic = p
				panic(p)
			}
		}()
		defer func() {
			r.Returned = true
			r.cancel()
		}()
		w.BeginAction()
		w.Srv.OnWebTransportSession(ctx, srv)
	})
	return c
}

// NewWTServer returns an initialised webtransport-go server (no listener).
func NewWTServer() *wtgo.Server {
	srv := &wtgo.Server{CheckOrigin: func(*http.Request) bool { return true }}
	func() {
		defer func() { recover() }()
		srv.Serve(nil) // initialises the session manager and the stream hijackers; fails to listen (no TLS config)
	}()
	return srv
}
