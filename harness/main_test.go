package harness

import (
	"encoding/json"
	"flag"
	"fmt"
	"os"
	"runtime"
	"strings"
	"testing"
	"time"
)

var (
	fProp   = flag.String("vprop", "", "property id")
	fTier   = flag.String("vtier", "quick", "quick|thorough")
	fShard  = flag.Int("vshard", 0, "worker index")
	fN      = flag.Int("vshards", 1, "number of workers")
	fOut    = flag.String("vout", "", "result file (JSON lines of UnitResult)")
	fReplay = flag.String("vreplay", "", "replay file")
	fList   = flag.Bool("vlist", false, "list units")
	fBudget = flag.Duration("vbudget", 0, "wall budget per exploration")
	fUnit   = flag.String("vunit", "", "only units whose name has this prefix")
	fExact  = flag.String("vexact", "", "only the unit with exactly this name (then -vshard/-vshards shard inside the unit)")
)

// TestCheck is the worker entry point: it runs this worker's share of the
// property's units and writes one UnitResult per line.
func TestCheck(t *testing.T) {
	runtime.GOMAXPROCS(1)
	if *fProp == "" {
		t.Skip("no -vprop")
	}
	var replay *ReplaySpec
	if *fReplay != "" {
		b, err := os.ReadFile(*fReplay)
		if err != nil {
			t.Fatal(err)
		}
		var f Finding
		if err := json.Unmarshal(b, &f); err != nil {
			t.Fatal(err)
		}
		replay = &ReplaySpec{Unit: f.Unit, Scenario: f.Scenario, Choices: f.Choices}
	}
	var out *os.File
	if *fOut != "" {
		var err error
		if out, err = os.Create(*fOut); err != nil {
			t.Fatal(err)
		}
		defer out.Close()
	}
	k := 0
	for _, u := range units {
		if u.Prop != *fProp || (u.Thorough && *fTier != "thorough") {
			continue
		}
		if *fUnit != "" && !strings.HasPrefix(u.Name, *fUnit) {
			continue
		}
		if *fExact != "" && u.Name != *fExact {
			continue
		}
		if *fList {
			n := 1
			if *fTier == "thorough" {
				n = max(u.Shards, 1) // intra-unit sharding only in the thorough tier
			}
			fmt.Println(u.Prop, u.Name, n)
			continue
		}
		if replay != nil && replay.Unit != u.Name {
			continue
		}
		mine := k%*fN == *fShard || *fExact != ""
		k++
		if !mine && replay == nil {
			continue
		}
		res := &UnitResult{Property: u.Prop, Unit: u.Name, Outcomes: map[string]int64{}, Exhaustive: true, BoundCompleted: 1 << 30}
		c := &Ctx{T: t, Tier: *fTier, Res: res, Replay: replay, Budget: *fBudget, Shard: *fShard, NShards: *fN, Sharded: u.Shards > 1 && *fExact != "" && *fTier == "thorough" && *fN > 1}
		start := time.Now()
		func() {
			defer func() {
				if r := recover(); r != nil {
					res.Internal = append(res.Internal, fmt.Sprintf("unit panicked: %v", r))
				}
			}()
			u.Run(c)
		}()
		res.WallS = time.Since(start).Seconds()
		if res.BoundCompleted == 1<<30 {
			res.BoundCompleted = res.Bound
		}
		if out != nil {
			b, _ := json.Marshal(res)
			out.Write(append(b, '\n'))
		}
	}
}
