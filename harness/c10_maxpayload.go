package harness

import (
	"bytes"
	"compress/flate"
	"unsafe"
	"fmt"
	"net/url"
	"strings"
	"time"

	"github.com/zishang520/engine.io/v2/config"
	"github.com/zishang520/engine.io/v2/types"
	"verifrt/vsched"
)

// C10 — maximum payload size on every inbound path.

type mpCase struct {
	carrier string // polling4 | polling3 | polling3b64 | jsonp | websocket | websocket-fragmented | websocket-upgraded | webtransport16 | webtransport64 | webtransport
	limit   int64
	size    int64 // body bytes (polling) or frame payload bytes
	declare string // polling: "content-length" | "unknown" | "endless"
	multi   bool   // the payload holds two packets
}

func (c mpCase) String() string {
	return fmt.Sprintf("%s limit=%d size=%d declare=%s multi=%v", c.carrier, c.limit, c.size, c.declare, c.multi)
}

const bodySlack = 64 << 10 // "the limit plus a constant number of bytes"

// msgOfWire returns message data such that the packet's wire text ("4"+data) has n bytes.
func textOfLen(n int64) string {
	if n <= 0 {
		return ""
	}
	return strings.Repeat("m", int(n))
}

func mpBody(c mpCase) vsched.Body {
	return func(x *vsched.Exec) {
		o := config.DefaultServerOptions()
		o.SetAllowEIO3(true)
		o.SetMaxHttpBufferSize(c.limit)
		o.SetTransports(types.NewSet("polling", "websocket", "webtransport"))
		if c.carrier == "websocket-deflated" {
			o.SetPerMessageDeflate(&types.PerMessageDeflate{Threshold: 0})
		}
		w := NewWorld(x, o)
		id := c.String()
		rel := "over"
		switch {
		case c.size < c.limit:
			rel = "under"
		case c.size == c.limit:
			rel = "at"
		}
		cls := fmt.Sprintf("[%s %s-limit declare=%s]", c.carrier, rel, c.declare)
		// the canary session
		canary := &PollClient{W: w, EIO: 4}
		cr := canary.Get()
		x.Settle()
		if pk, err := canary.DecodeResp(cr); err == nil && len(pk) > 0 {
			if open, e := ParseOpen(pk[0]); e == nil {
				canary.Sid, _ = open["sid"].(string)
			}
		}
		if canary.Sid == "" {
			x.Fail("setup: canary handshake failed (%s)", id)
			return
		}
		var post *Resp
		var victim *SockRec
		var wsPipe *Pipe
		switch {
		case strings.HasPrefix(c.carrier, "polling"), c.carrier == "jsonp":
			pc := &PollClient{W: w, EIO: 4}
			switch c.carrier {
			case "polling3":
				pc.EIO = 3
			case "polling3b64":
				pc.EIO, pc.B64 = 3, true
			case "jsonp":
				pc.JSONP = "2"
			}
			r := pc.Get()
			x.Settle()
			pk, err := pc.DecodeResp(r)
			if err != nil || len(pk) == 0 {
				x.Fail("setup: handshake failed (%s)", id)
				return
			}
			open, _ := ParseOpen(pk[0])
			pc.Sid, _ = open["sid"].(string)
			victim = w.ByID[pc.Sid]
			// build a body of exactly c.size bytes that is a well-formed payload
			var body []byte
			ct := "text/plain;charset=UTF-8"
			mk := func(n int64) []byte {
				// find the data length whose encoding has n bytes (encodings grow monotonically by 1)
				for d := n; d >= 0; d-- {
					var b []byte
					ps := []Pkt{Msg(textOfLen(d))}
					if c.multi {
						ps = []Pkt{Msg("a"), Msg(textOfLen(d))}
					}
					if pc.JSONP != "" {
						b, ct = pc.EncodeBody(ps)
					} else if pc.EIO == 4 {
						b = EncodePayload4(ps)
					} else {
						b = EncodePayload3String(ps)
					}
					if int64(len(b)) <= n {
						return b
					}
				}
				return nil
			}
			body = mk(c.size)
			if int64(len(body)) != c.size {
				x.Outcome = "skipped"
				return // no well-formed payload of that exact size
			}
			opt := ReqOpt{Hdr: map[string]string{"Content-Type": ct}, Body: body}
			switch c.declare {
			case "unknown":
				opt.UnknownLength = true
			case "endless":
				opt.Body = nil
				opt.EndlessBody = true
			}
			post = w.Request("POST", pc.url(true), opt)
		case strings.HasPrefix(c.carrier, "websocket"):
			var ws *WSClient
			if c.carrier == "websocket-upgraded" {
				pc := &PollClient{W: w, EIO: 4}
				r := pc.Get()
				x.Settle()
				pk, _ := pc.DecodeResp(r)
				if len(pk) == 0 {
					x.Fail("setup: handshake failed (%s)", id)
					return
				}
				open, _ := ParseOpen(pk[0])
				pc.Sid, _ = open["sid"].(string)
				victim = w.ByID[pc.Sid]
				poll := pc.Get()
				x.Settle()
				ws = w.DialWS(4, pc.Sid, false, false, "")
				x.Settle()
				vsched.GoNamed("upgrade", func() {
					ws.SendPkt(Pkt{Type: '2', Data: []byte("probe")})
				})
				x.Run(x.Now() + 500*time.Millisecond)
				_ = poll
				vsched.GoNamed("upgrade2", func() { ws.SendPkt(Pkt{Type: '5'}) })
				x.Run(x.Now() + 500*time.Millisecond)
				if !victim.Sock.Upgraded() {
					x.Fail("setup: upgrade did not complete (%s)", id)
					return
				}
			} else if c.carrier == "websocket-early" {
				// the client sends its frame as soon as it has the open packet, while the application's
				// connection handler (which takes 300ms) is still running
				w.OnConnection = func(s *SockRec) {
					if len(w.Socks) == 2 {
						vsched.Sleep(300 * time.Millisecond)
					}
				}
				ws = w.DialWS(4, "", false, false, "")
				payload := []byte("4" + textOfLen(c.size-1))
				vsched.GoNamed("client", func() {
					r := ws.Resp
					vsched.WaitFor(uintptr(unsafe.Pointer(r)), "early-wait-open", func() bool { return r.Conn != nil || r.wrote || r.Returned })
					if r.Conn == nil {
						return
					}
					p := ws.pipe()
					vsched.WaitFor(pipeObj(p), "early-wait-open-packet", func() bool { return len(p.toCli) > 0 || p.srvClosed })
					ws.SendFrame(1, payload)
				})
				x.Run(x.Now() + time.Second)
				if len(w.Socks) != 2 {
					x.Fail("setup: websocket handshake failed (%s)", id)
					return
				}
				victim = w.Socks[1]
				wsPipe = ws.pipe()
				break
			} else {
				ws = w.DialWS(4, "", false, c.carrier == "websocket-deflated", "")
				x.Settle()
				if !ws.Ready() || len(w.Socks) != 2 {
					x.Fail("setup: websocket handshake failed (%s)", id)
					return
				}
				victim = w.Socks[1]
			}
			wsPipe = ws.pipe()
			payload := []byte("4" + textOfLen(c.size-1))
			vsched.GoNamed("client", func() {
				if c.carrier == "websocket-deflated" {
					// one permessage-deflate compressed frame (RSV1): a few bytes on the wire, c.size bytes once inflated
					var zb bytes.Buffer
					zw, _ := flate.NewWriter(&zb, flate.BestCompression)
					zw.Write(payload)
					zw.Flush()
					z := bytes.TrimSuffix(zb.Bytes(), []byte{0, 0, 0xff, 0xff})
					f := maskedFrame(1, true, z)
					f[0] |= 0x40
					if p := ws.pipe(); p != nil {
						p.ClientWrite(f)
					}
					return
				}
				if c.carrier == "websocket-fragmented" {
					frag := int(c.limit/2) + 1
					ws.SendFragmented(1, payload, frag)
				} else {
					ws.SendFrame(1, payload)
				}
			})
		case strings.HasPrefix(c.carrier, "webtransport"):
			wc := w.DialWT(c.limit)
			wc.Handshake()
			x.Settle()
			if len(w.Socks) != 2 {
				x.Fail("setup: webtransport handshake failed (%s)", id)
				return
			}
			victim = w.Socks[1]
			form := 0
			switch c.carrier {
			case "webtransport16":
				form = 1
			case "webtransport64":
				form = 2
			}
			if form == 1 && c.size >= 65536 {
				x.Outcome = "skipped"
				return
			}
			payload := []byte("4" + textOfLen(c.size-1))
			vsched.GoNamed("client", func() { wc.SendRaw(wtEncode(wtMsg{false, payload}, form)) })
		}
		x.Run(x.Now() + 2*time.Second)
		for _, t := range x.Panics() {
			x.Fail("panic%s: thread %s: %v (%s)", cls, t.Name, t.Panic, id)
		}
		// 1. no message above the limit, on any session
		for _, s := range w.Socks {
			for _, m := range s.Messages() {
				if int64(len(m.Data)) > c.limit {
					x.Fail("oversized-delivered%s: a message of %d bytes was delivered with maxHttpBufferSize %d (%s)", cls, len(m.Data), c.limit, id)
				}
			}
		}
		// 2. polling: status and bytes consumed
		if post != nil {
			if post.BodyRead != nil && post.BodyRead.Read_ > c.limit+bodySlack {
				x.Fail("body-overread%s: the server consumed %d bytes of the request body, limit %d (%s)", cls, post.BodyRead.Read_, c.limit, id)
			}
			over := c.size > c.limit || c.declare == "endless"
			if over {
				if !post.wrote || post.Code != 413 {
					x.Fail("oversized-status%s: oversized body answered %d (wrote=%v), expected 413 (%s)", cls, post.Code, post.wrote, id)
				}
			} else {
				if !post.wrote || post.Code != 200 {
					x.Fail("within-limit-refused%s: body within the limit answered %d (%s)", cls, post.Code, id)
				}
				// (revision-4 payload packets above 64 KiB are lost by the parser dependency: C02 known finding)
				if victim != nil && len(victim.Messages()) == 0 && !((c.carrier == "polling4" || c.carrier == "jsonp") && c.size > 65536) {
					x.Fail("within-limit-lost%s: payload within the limit was not delivered (%s)", cls, id)
				}
			}
			if !post.Returned {
				x.Fail("handler-blocked%s: the data request handler did not return (%s)", cls, id)
			}
		} else if victim != nil {
			over := c.size > c.limit
			closed := victim.Count("close") > 0
			if over && !closed {
				x.Fail("oversized-not-terminated%s: the connection stayed open after an oversized frame (%s)", cls, id)
			}
			if over && wsPipe != nil && !wsPipe.srvClosed {
				x.Fail("oversized-not-terminated%s: the server did not close the websocket connection (%s)", cls, id)
			}
			if !over {
				if closed {
					x.Fail("within-limit-refused%s: frame within the limit closed the session: %v (%s)", cls, victim.CloseReasons(), id)
				} else if len(victim.Messages()) != 1 {
					x.Fail("within-limit-lost%s: frame within the limit was not delivered (%s)", cls, id)
				}
			}
		}
		// 3. the other session is unaffected and still works
		crec := w.ByID[canary.Sid]
		if crec == nil || crec.Count("close") != 0 {
			x.Fail("collateral-close%s: the other session closed (%s)", cls, id)
			return
		}
		p2 := canary.Post([]Pkt{Msg("c")})
		x.Run(x.Now() + time.Second)
		if !p2.wrote || p2.Code != 200 || len(crec.Messages()) != 1 {
			x.Fail("collateral-broken%s: the other session's round trip failed: status %d, %d messages (%s)", cls, p2.Code, len(crec.Messages()), id)
		}
		x.Outcome = fmt.Sprintf("%s closed=%v", rel, victim != nil && victim.Count("close") > 0)
	}
}

func init() {
	register("C10", "matrix", false, func(c *Ctx) {
		limits := Pick(c, []int64{10, 100, 100000}, []int64{10, 100, 4096, 100000, 1000000})
		n := 0
		for _, limit := range limits {
			sizes := []int64{limit - 1, limit, limit + 1, 10 * limit, limit/2 + 1}
			for _, size := range sizes {
				if size < 2 {
					continue
				}
				for _, car := range []string{"polling4", "polling3", "polling3b64", "jsonp"} {
					for _, decl := range []string{"content-length", "unknown", "endless"} {
						for _, multi := range []bool{false, true} {
							if decl == "endless" && (multi || size != limit+1) {
								continue
							}
							mc := mpCase{car, limit, size, decl, multi}
							n++
							c.Once(mc.String(), mpBody(mc))
							if n%37 == 1 {
								c.Sample(mc.String())
							}
						}
					}
				}
				for _, car := range []string{"websocket", "websocket-fragmented", "websocket-upgraded", "websocket-early", "websocket-deflated", "webtransport", "webtransport16", "webtransport64"} {
					if car == "websocket-fragmented" && limit < 4 {
						continue
					}
					mc := mpCase{car, limit, size, "", false}
					n++
					c.Once(mc.String(), mpBody(mc))
				}
			}
		}
		c.Res.Distinct = int64(n)
		c.Note("maxHttpBufferSize %v x size {limit-1, limit, limit+1, 10*limit, limit/2+1} x polling revision 4 / 3 / 3+b64 / JSONP with Content-Length declared, unknown (-1) and an endless body, single and two-packet payloads; websocket single frame, fragmented message (fragments below the limit), websocket reached through a polling upgrade; webtransport frames in the 7-bit/16-bit/64-bit length forms; a second session must complete a round trip afterwards", limits)
	})
}

var _ = url.Values{}
