package harness

import (
	"bytes"
	"encoding/base64"
	"errors"
	"fmt"
	"strconv"
	"unicode/utf16"
	"unicode/utf8"
)

// Reference implementation of the Engine.IO packet/payload formats, written
// from the protocol documents (engine.io-protocol v3 and v4). It shares no code
// with /repo or its parser dependency.

// Pkt is a protocol packet as a conformant peer sees it.
type Pkt struct {
	Type   byte // '0' open '1' close '2' ping '3' pong '4' message '5' upgrade '6' noop
	Data   []byte
	Binary bool
}

func (p Pkt) String() string {
	k := "t"
	if p.Binary {
		k = "b"
	}
	d := p.Data
	if len(d) > 24 {
		return fmt.Sprintf("%c%s[%d]%q…", p.Type, k, len(d), d[:12])
	}
	return fmt.Sprintf("%c%s%q", p.Type, k, d)
}

func Msg(s string) Pkt    { return Pkt{Type: '4', Data: []byte(s)} }
func MsgBin(b []byte) Pkt { return Pkt{Type: '4', Data: b, Binary: true} }

func pktEqual(a, b Pkt) bool {
	return a.Type == b.Type && a.Binary == b.Binary && bytes.Equal(a.Data, b.Data)
}

func pktsEqual(a, b []Pkt) bool {
	if len(a) != len(b) {
		return false
	}
	for i := range a {
		if !pktEqual(a[i], b[i]) {
			return false
		}
	}
	return true
}

func fmtPkts(ps []Pkt) string {
	var b bytes.Buffer
	b.WriteByte('[')
	for i, p := range ps {
		if i > 0 {
			b.WriteByte(' ')
		}
		b.WriteString(p.String())
	}
	b.WriteByte(']')
	return b.String()
}

func utf16Len(b []byte) int {
	n := 0
	for len(b) > 0 {
		r, sz := utf8.DecodeRune(b)
		b = b[sz:]
		if r >= 0x10000 {
			n += 2
		} else {
			n++
		}
	}
	return n
}

// ---- protocol 4 ----

const sep4 = 0x1e

// encodePacket4Text is the textual form of a packet (polling payload element or
// text frame); binary data travels as 'b'+base64.
func encodePacket4Text(p Pkt) []byte {
	if p.Binary {
		return append([]byte{'b'}, base64.StdEncoding.EncodeToString(p.Data)...)
	}
	return append([]byte{p.Type}, p.Data...)
}

func EncodePayload4(ps []Pkt) []byte {
	var out []byte
	for i, p := range ps {
		if i > 0 {
			out = append(out, sep4)
		}
		out = append(out, encodePacket4Text(p)...)
	}
	return out
}

func decodePacket4Text(b []byte) (Pkt, error) {
	if len(b) == 0 {
		return Pkt{}, errors.New("empty packet")
	}
	if b[0] == 'b' {
		d, err := base64.StdEncoding.DecodeString(string(b[1:]))
		if err != nil {
			return Pkt{}, err
		}
		return Pkt{Type: '4', Data: d, Binary: true}, nil
	}
	if b[0] < '0' || b[0] > '6' {
		return Pkt{}, fmt.Errorf("bad packet type %q", b[0])
	}
	return Pkt{Type: b[0], Data: append([]byte(nil), b[1:]...)}, nil
}

func DecodePayload4(b []byte) ([]Pkt, error) {
	var out []Pkt
	if len(b) == 0 {
		return nil, nil
	}
	for _, part := range bytes.Split(b, []byte{sep4}) {
		p, err := decodePacket4Text(part)
		if err != nil {
			return out, err
		}
		out = append(out, p)
	}
	return out, nil
}

// Frame forms (websocket / webtransport), protocol 4: text frame = packet text,
// binary frame = raw payload of a message.
func EncodeFrame4(p Pkt, b64 bool) (data []byte, binary bool) {
	if p.Binary && !b64 {
		return p.Data, true
	}
	return encodePacket4Text(p), false
}

func DecodeFrame4(data []byte, binary bool) (Pkt, error) {
	if binary {
		return Pkt{Type: '4', Data: data, Binary: true}, nil
	}
	return decodePacket4Text(data)
}

// ---- protocol 3 ----

// textual packet: type + data, or "b"+type+base64 for binary.
func encodePacket3Text(p Pkt) []byte {
	if p.Binary {
		return append([]byte{'b', p.Type}, base64.StdEncoding.EncodeToString(p.Data)...)
	}
	return append([]byte{p.Type}, p.Data...)
}

func decodePacket3Text(b []byte) (Pkt, error) {
	if len(b) == 0 {
		return Pkt{}, errors.New("empty packet")
	}
	if b[0] == 'b' {
		if len(b) < 2 || b[1] < '0' || b[1] > '6' {
			return Pkt{}, errors.New("bad base64 packet")
		}
		d, err := base64.StdEncoding.DecodeString(string(b[2:]))
		if err != nil {
			return Pkt{}, err
		}
		return Pkt{Type: b[1], Data: d, Binary: true}, nil
	}
	if b[0] < '0' || b[0] > '6' {
		return Pkt{}, fmt.Errorf("bad packet type %q", b[0])
	}
	return Pkt{Type: b[0], Data: append([]byte(nil), b[1:]...)}, nil
}

// EncodePayload3String: <length in UTF-16 code units>:<packet>...
func EncodePayload3String(ps []Pkt) []byte {
	var out []byte
	for _, p := range ps {
		e := encodePacket3Text(p)
		out = append(out, strconv.Itoa(utf16Len(e))...)
		out = append(out, ':')
		out = append(out, e...)
	}
	return out
}

func DecodePayload3String(b []byte) ([]Pkt, error) {
	var out []Pkt
	for len(b) > 0 {
		i := bytes.IndexByte(b, ':')
		if i <= 0 {
			return out, errors.New("bad length prefix")
		}
		n, err := strconv.Atoi(string(b[:i]))
		if err != nil || n < 0 {
			return out, errors.New("bad length prefix")
		}
		b = b[i+1:]
		// take n UTF-16 code units
		j, units := 0, 0
		for units < n {
			if j >= len(b) {
				return out, errors.New("payload shorter than its length prefix")
			}
			r, sz := utf8.DecodeRune(b[j:])
			j += sz
			units += len(utf16.Encode([]rune{r}))
		}
		p, err := decodePacket3Text(b[:j])
		if err != nil {
			return out, err
		}
		out = append(out, p)
		b = b[j:]
	}
	return out, nil
}

// EncodePayload3Binary: per packet <0 string|1 binary><length digits as bytes 0-9><255><data>;
// string data = type char + UTF-8 bytes (length in bytes), binary data = type byte (number) + bytes.
func EncodePayload3Binary(ps []Pkt) []byte {
	var out []byte
	for _, p := range ps {
		var body []byte
		if p.Binary {
			out = append(out, 1)
			body = append([]byte{p.Type - '0'}, p.Data...)
		} else {
			out = append(out, 0)
			body = append([]byte{p.Type}, p.Data...)
		}
		for _, c := range strconv.Itoa(len(body)) {
			out = append(out, byte(c-'0'))
		}
		out = append(out, 0xff)
		out = append(out, body...)
	}
	return out
}

func DecodePayload3Binary(b []byte) ([]Pkt, error) {
	var out []Pkt
	for len(b) > 0 {
		kind := b[0]
		b = b[1:]
		n := 0
		i := 0
		for ; i < len(b) && b[i] != 0xff; i++ {
			if b[i] > 9 || i > 15 {
				return out, errors.New("bad length digit")
			}
			n = n*10 + int(b[i])
		}
		if i == len(b) || i == 0 {
			return out, errors.New("unterminated length")
		}
		b = b[i+1:]
		if n > len(b) || n < 1 {
			return out, errors.New("bad length")
		}
		body := b[:n]
		b = b[n:]
		if kind == 0 {
			out = append(out, Pkt{Type: body[0], Data: append([]byte(nil), body[1:]...)})
		} else {
			out = append(out, Pkt{Type: body[0] + '0', Data: append([]byte(nil), body[1:]...), Binary: true})
		}
	}
	return out, nil
}

// Frame forms, protocol 3: text frame = packet text; binary frame = type byte + payload.
func EncodeFrame3(p Pkt, b64 bool) (data []byte, binary bool) {
	if p.Binary && !b64 {
		return append([]byte{p.Type - '0'}, p.Data...), true
	}
	return encodePacket3Text(p), false
}

func DecodeFrame3(data []byte, binary bool) (Pkt, error) {
	if binary {
		if len(data) == 0 || data[0] > 6 {
			return Pkt{}, errors.New("bad binary frame")
		}
		return Pkt{Type: data[0] + '0', Data: append([]byte(nil), data[1:]...), Binary: true}, nil
	}
	return decodePacket3Text(data)
}

// isASCII reports whether every packet's text is ASCII (used to keep v3 binary
// payloads inside the part of the format whose string encoding is unambiguous).
func isASCII(b []byte) bool {
	for _, c := range b {
		if c >= 0x80 {
			return false
		}
	}
	return true
}
