package harness

import (
	"bytes"
	"compress/flate"
	"compress/gzip"
	"compress/zlib"
	"encoding/binary"
	"encoding/json"
	"errors"
	"fmt"
	"io"
	"net/url"
	"regexp"
	"strings"

	"github.com/andybalholm/brotli"
	"github.com/klauspost/compress/zstd"
)

// PollClient is a protocol-conformant long-polling client (codec side only;
// scheduling is the caller's business).
type PollClient struct {
	W     *World
	EIO   int
	B64   bool
	JSONP string // value of j ("" = plain XHR polling)
	Path  string // default /engine.io/
	Sid   string
	Hdr   map[string]string
	Extra string // extra query string
	Open  map[string]any
}

func (c *PollClient) url(withSid bool) string {
	p := c.Path
	if p == "" {
		p = "/engine.io/"
	}
	v := url.Values{}
	if c.EIO != 0 {
		v.Set("EIO", fmt.Sprint(c.EIO))
	}
	v.Set("transport", "polling")
	if c.B64 {
		v.Set("b64", "1")
	}
	if c.JSONP != "" {
		v.Set("j", c.JSONP)
	}
	if withSid && c.Sid != "" {
		v.Set("sid", c.Sid)
	}
	s := p + "?" + v.Encode()
	if c.Extra != "" {
		s += "&" + c.Extra
	}
	return s
}

// Get starts a handshake (no sid yet) or a poll request.
func (c *PollClient) Get() *Resp {
	return c.W.Request("GET", c.url(true), ReqOpt{Hdr: c.Hdr})
}

// Post starts a data request carrying the packets.
func (c *PollClient) Post(ps []Pkt) *Resp {
	body, ct := c.EncodeBody(ps)
	h := map[string]string{"Content-Type": ct}
	for k, v := range c.Hdr {
		h[k] = v
	}
	r := c.W.Request("POST", c.url(true), ReqOpt{Hdr: h, Body: body})
	var msgs []string
	for _, p := range ps {
		if p.Type == '4' {
			msgs = append(msgs, string(p.Data))
		}
	}
	c.W.PostMsgs[r] = msgs
	return r
}

// PostRaw posts an arbitrary body.
func (c *PollClient) PostRaw(body []byte, ct string) *Resp {
	h := map[string]string{"Content-Type": ct}
	for k, v := range c.Hdr {
		h[k] = v
	}
	return c.W.Request("POST", c.url(true), ReqOpt{Hdr: h, Body: body})
}

// EncodeBody is the wire form a conformant client uses for a packet list.
func (c *PollClient) EncodeBody(ps []Pkt) (body []byte, contentType string) {
	var payload []byte
	ct := "text/plain;charset=UTF-8"
	if c.EIO == 4 {
		payload = EncodePayload4(ps)
	} else {
		bin := false
		for _, p := range ps {
			bin = bin || p.Binary
		}
		if bin && !c.B64 && c.JSONP == "" {
			return EncodePayload3Binary(ps), "application/octet-stream"
		}
		payload = EncodePayload3String(ps)
	}
	if c.JSONP != "" {
		// engine.io-client's JSONP form: d=<payload with "\n" written as the two
		// characters backslash-n, and backslash-n written as backslash-backslash-n>
		s := string(payload)
		s = strings.ReplaceAll(s, `\n`, `\\n`)
		s = strings.ReplaceAll(s, "\n", `\n`)
		return []byte("d=" + url.QueryEscape(s)), "application/x-www-form-urlencoded"
	}
	return payload, ct
}

var jsonpRe = regexp.MustCompile(`^___eio\[(\d*)\]\((.*)\);$`)

// ContentDecode undoes the response's Content-Encoding as HTTP defines it.
func ContentDecode(r *Resp) ([]byte, error) {
	enc := r.Hdr.Get("Content-Encoding")
	switch enc {
	case "":
		return r.Body, nil
	case "gzip":
		zr, err := gzip.NewReader(bytes.NewReader(r.Body))
		if err != nil {
			return nil, err
		}
		return io.ReadAll(zr)
	case "deflate":
		// RFC 9110 §8.4.1.2: "deflate" is the zlib format (RFC 1950)
		zr, err := zlib.NewReader(bytes.NewReader(r.Body))
		if err != nil {
			return nil, fmt.Errorf("deflate (zlib) body: %w", err)
		}
		return io.ReadAll(zr)
	case "br":
		return io.ReadAll(brotli.NewReader(bytes.NewReader(r.Body)))
	case "zstd":
		zr, err := zstd.NewReader(bytes.NewReader(r.Body))
		if err != nil {
			return nil, err
		}
		defer zr.Close()
		return io.ReadAll(zr)
	}
	return nil, fmt.Errorf("unknown Content-Encoding %q", enc)
}

// DecodeResp decodes a poll response to packets as a conformant client would.
func (c *PollClient) DecodeResp(r *Resp) ([]Pkt, error) {
	body, err := ContentDecode(r)
	if err != nil {
		return nil, err
	}
	return c.DecodeBody(body, r.Hdr.Get("Content-Type"))
}

func (c *PollClient) DecodeBody(body []byte, contentType string) ([]Pkt, error) {
	if c.JSONP != "" {
		m := jsonpRe.FindSubmatch(body)
		if m == nil {
			return nil, fmt.Errorf("not a JSONP response: %s", bodyPreview(body))
		}
		var s string
		if err := json.Unmarshal(m[2], &s); err != nil {
			return nil, fmt.Errorf("JSONP argument is not one JSON string literal: %v", err)
		}
		body = []byte(s)
		contentType = "text/plain"
	}
	if c.EIO == 4 {
		return DecodePayload4(body)
	}
	if strings.HasPrefix(contentType, "application/octet-stream") {
		return DecodePayload3Binary(body)
	}
	return DecodePayload3String(body)
}

// ParseOpen extracts the handshake data from an open packet.
func ParseOpen(p Pkt) (map[string]any, error) {
	if p.Type != '0' {
		return nil, fmt.Errorf("first packet is %s, not open", p)
	}
	var m map[string]any
	if err := json.Unmarshal(p.Data, &m); err != nil {
		return nil, err
	}
	return m, nil
}

// ---- WebSocket client side (RFC 6455), independent of gorilla ----

// WSFrame is a parsed server->client message (after reassembly, after inflate).
type WSFrame struct {
	Op         byte // 1 text 2 binary 8 close 9 ping 10 pong
	Data       []byte
	Compressed bool
}

// WSClient drives the client end of a hijacked connection.
type WSClient struct {
	P         *Pipe
	Resp      *Resp
	EIO       int
	B64       bool
	Deflate   bool // permessage-deflate negotiated
	Status    int  // HTTP status of the upgrade response (101 on success)
	HdrDone   bool
	Frames    []WSFrame
	frag      []byte
	fragOp    byte
	fragRSV1  bool
	ParseErr  error
	framesEnd int
}

// WSUpgradeHeaders are the request headers of a websocket handshake.
func WSUpgradeHeaders(deflate bool) map[string]string {
	h := map[string]string{
		"Connection":            "Upgrade",
		"Upgrade":               "websocket",
		"Sec-WebSocket-Version": "13",
		"Sec-WebSocket-Key":     "dGhlIHNhbXBsZSBub25jZQ==",
	}
	if deflate {
		h["Sec-WebSocket-Extensions"] = "permessage-deflate; client_max_window_bits"
	}
	return h
}

// DialWS starts a websocket upgrade request (handshake when sid == "", else an
// upgrade candidate for that session).
func (w *World) DialWS(eio int, sid string, b64, deflate bool, extraQuery string) *WSClient {
	v := url.Values{}
	if eio != 0 {
		v.Set("EIO", fmt.Sprint(eio))
	}
	v.Set("transport", "websocket")
	if sid != "" {
		v.Set("sid", sid)
	}
	if b64 {
		v.Set("b64", "1")
	}
	t := "/engine.io/?" + v.Encode()
	if extraQuery != "" {
		t += "&" + extraQuery
	}
	r := w.Request("GET", t, ReqOpt{Hdr: WSUpgradeHeaders(deflate), Hijackable: true})
	return &WSClient{Resp: r, EIO: eio, B64: b64}
}

func maskedFrame(op byte, fin bool, payload []byte) []byte {
	var b []byte
	b0 := op
	if fin {
		b0 |= 0x80
	}
	b = append(b, b0)
	n := len(payload)
	switch {
	case n < 126:
		b = append(b, 0x80|byte(n))
	case n < 65536:
		b = append(b, 0x80|126, byte(n>>8), byte(n))
	default:
		b = append(b, 0x80|127)
		var l [8]byte
		binary.BigEndian.PutUint64(l[:], uint64(n))
		b = append(b, l[:]...)
	}
	key := [4]byte{0x12, 0x34, 0x56, 0x78}
	b = append(b, key[:]...)
	for i, c := range payload {
		b = append(b, c^key[i%4])
	}
	return b
}

func (c *WSClient) pipe() *Pipe {
	if c.P == nil {
		c.P = c.Resp.Conn
	}
	return c.P
}

// Ready reports whether the connection was hijacked (upgrade accepted so far).
func (c *WSClient) Ready() bool { return c.pipe() != nil }

// SendFrame writes one client frame.
func (c *WSClient) SendFrame(op byte, payload []byte) {
	if p := c.pipe(); p != nil {
		p.ClientWrite(maskedFrame(op, true, payload))
	}
}

// SendFragmented writes a message split into fragments of the given sizes.
func (c *WSClient) SendFragmented(op byte, payload []byte, size int) {
	p := c.pipe()
	if p == nil {
		return
	}
	var out []byte
	first := true
	for len(payload) > 0 || first {
		n := size
		if n > len(payload) {
			n = len(payload)
		}
		o := byte(0)
		if first {
			o = op
		}
		out = append(out, maskedFrame(o, n == len(payload), payload[:n])...)
		payload = payload[n:]
		first = false
	}
	p.ClientWrite(out)
}

// SendPkt writes a packet in the session's frame encoding.
func (c *WSClient) SendPkt(p Pkt) {
	var data []byte
	var bin bool
	if c.EIO == 4 {
		data, bin = EncodeFrame4(p, c.B64)
	} else {
		data, bin = EncodeFrame3(p, c.B64)
	}
	op := byte(1)
	if bin {
		op = 2
	}
	c.SendFrame(op, data)
}

// SendClose writes a close frame.
func (c *WSClient) SendClose(code uint16, reason string) {
	b := []byte{byte(code >> 8), byte(code)}
	c.SendFrame(8, append(b, reason...))
}

// Drop is an abrupt TCP disconnect.
func (c *WSClient) Drop() {
	if p := c.pipe(); p != nil {
		p.ClientClose()
	}
}

// Poll parses everything the server has written so far; returns the new frames.
func (c *WSClient) Poll() []WSFrame {
	p := c.pipe()
	if p == nil || c.ParseErr != nil {
		return nil
	}
	start := len(c.Frames)
	buf := p.toCli[p.cliRead:]
	if !c.HdrDone {
		i := bytes.Index(buf, []byte("\r\n\r\n"))
		if i < 0 {
			return nil
		}
		head := string(buf[:i])
		fmt.Sscanf(head, "HTTP/1.1 %d", &c.Status)
		c.Deflate = strings.Contains(strings.ToLower(head), "permessage-deflate")
		c.HdrDone = true
		p.cliRead += i + 4
		buf = p.toCli[p.cliRead:]
	}
	for {
		if len(buf) < 2 {
			break
		}
		fin, rsv1, op := buf[0]&0x80 != 0, buf[0]&0x40 != 0, buf[0]&0x0f
		if buf[1]&0x80 != 0 {
			c.ParseErr = errors.New("server frame is masked")
			break
		}
		n := int(buf[1] & 0x7f)
		h := 2
		switch n {
		case 126:
			if len(buf) < 4 {
				return c.Frames[start:]
			}
			n = int(binary.BigEndian.Uint16(buf[2:4]))
			h = 4
		case 127:
			if len(buf) < 10 {
				return c.Frames[start:]
			}
			n = int(binary.BigEndian.Uint64(buf[2:10]))
			h = 10
		}
		if len(buf) < h+n {
			break
		}
		payload := append([]byte(nil), buf[h:h+n]...)
		buf = buf[h+n:]
		p.cliRead += h + n
		if op >= 8 {
			c.Frames = append(c.Frames, WSFrame{Op: op, Data: payload})
			continue
		}
		if op != 0 {
			c.fragOp, c.fragRSV1, c.frag = op, rsv1, nil
		}
		c.frag = append(c.frag, payload...)
		if fin {
			data := c.frag
			if c.fragRSV1 {
				fr := flate.NewReader(io.MultiReader(bytes.NewReader(data), bytes.NewReader([]byte{0x00, 0x00, 0xff, 0xff, 0x01, 0x00, 0x00, 0xff, 0xff})))
				d, err := io.ReadAll(fr)
				if err != nil {
					c.ParseErr = fmt.Errorf("inflate: %v", err)
					break
				}
				data = d
			}
			c.Frames = append(c.Frames, WSFrame{Op: c.fragOp, Data: data, Compressed: c.fragRSV1})
			c.frag = nil
		}
	}
	return c.Frames[start:]
}

// Pkts decodes all data frames received so far into packets.
func (c *WSClient) Pkts() ([]Pkt, error) {
	c.Poll()
	var out []Pkt
	for _, f := range c.Frames {
		if f.Op != 1 && f.Op != 2 {
			continue
		}
		var p Pkt
		var err error
		if c.EIO == 4 {
			p, err = DecodeFrame4(f.Data, f.Op == 2)
		} else {
			p, err = DecodeFrame3(f.Data, f.Op == 2)
		}
		if err != nil {
			return out, err
		}
		out = append(out, p)
	}
	return out, c.ParseErr
}

// CloseFrame returns the server's close frame text, if one was received.
func (c *WSClient) CloseFrame() (string, bool) {
	c.Poll()
	for _, f := range c.Frames {
		if f.Op == 8 {
			if len(f.Data) >= 2 {
				return string(f.Data[2:]), true
			}
			return "", true
		}
	}
	return "", false
}

// ServerClosed reports whether the server closed its end.
func (c *WSClient) ServerClosed() bool {
	p := c.pipe()
	return p != nil && p.srvClosed
}
