package harness

import (
	"errors"
	"fmt"
	"io"
	"strings"

	wt "github.com/zishang520/engine.io/v2/webtransport"
)

// C15 — the WebTransport reader is total. Oracle from the reference decoder.

var errInjected = errors.New("injected stream failure")

// injectedTimeout: the same failure as a net.Error reporting Timeout() (a read deadline expiring on the stream); it has the
// text of errInjected, so the oracles compare it as the same failure
type injectedTimeout struct{}

func (injectedTimeout) Error() string   { return errInjected.Error() }
func (injectedTimeout) Timeout() bool   { return true }
func (injectedTimeout) Temporary() bool { return true }

func (k wtTotCase) injErr() error {
	if k.timeout {
		return injectedTimeout{}
	}
	return errInjected
}

type wtTotCase struct {
	stream  []byte
	limit   int64
	consume string // all | none | one | half
	failAt  int    // read call index that fails (-1 none)
	rb      int
	chunk   int
	api     string // Read5 | Read1 | Read8K | ReadMessage
	eofWith bool   // the stream returns its last bytes together with EOF
	timeout bool   // the injected failure is a net.Error with Timeout() true
}

func (k wtTotCase) String() string {
	s := k.stream
	pre := fmt.Sprintf("%x", s)
	if len(s) > 24 {
		pre = fmt.Sprintf("%x…(%d bytes)", s[:24], len(s))
	}
	return fmt.Sprintf("stream=%s limit=%d consume=%s failAt=%d rb=%d chunk=%d api=%s eof-with-data=%v timeout-fault=%v", pre, k.limit, k.consume, k.failAt, k.rb, k.chunk, k.api, k.eofWith, k.timeout)
}

func isUnexpectedEnd(err error) bool {
	if err == nil {
		return false
	}
	if errors.Is(err, io.ErrUnexpectedEOF) {
		return true
	}
	var ce *wt.CloseError
	if errors.As(err, &ce) {
		return ce.Code == wt.CloseAbnormalClosure && strings.Contains(ce.Text, "unexpected EOF")
	}
	return false
}

func sameErr(a, b error) bool {
	if a == nil || b == nil {
		return a == b
	}
	return a == b || a.Error() == b.Error()
}

// wtTotality runs one case on the real Conn and returns oracle failures. Cases of the
// ReadMessage api are run twice: through NextReader + ReadAll, and through the real
// Conn.ReadMessage (its own allocation and error path).
func wtTotality(k wtTotCase) (fails []string, outcome string) {
	fails, outcome = wtTotalityReader(k)
	if k.api == "ReadMessage" && k.consume == "all" {
		fails = append(fails, wtTotalityReadMessage(k)...)
	}
	return fails, outcome
}

// wtTotalityReadMessage drives Conn.ReadMessage until it fails: complete frames are returned
// whole, a failing call returns no more payload than the stream supplied for that frame (and
// only bytes of it), the limit is enforced, the failure is repeated by every later call.
func wtTotalityReadMessage(k wtTotCase) (fails []string) {
	ref := wtDecode(k.stream)
	fs := newFakeStream(k.stream)
	fs.failAt, fs.failErr, fs.chunk = k.failAt, k.injErr(), k.chunk
	fs.eofWithData = k.eofWith
	sess := newFakeSession()
	c := wt.NewConn(sess.S, fs, true, k.rb, 0, nil, nil, nil)
	c.SetReadLimit(k.limit)
	cls := fmt.Sprintf("[api=ReadMessage limit%s fault=%v]", map[bool]string{true: ">0", false: "=0"}[k.limit > 0], k.failAt >= 0)
	fail := func(kind, format string, a ...any) {
		fails = append(fails, fmt.Sprintf("%s%s: %s (%s)", kind, cls, fmt.Sprintf(format, a...), k))
	}
	defer func() {
		if r := recover(); r != nil {
			fail("reader-panic", "%v", r)
		}
	}()
	var firstErr error
	idx := 0
	for ; idx < 1<<16; idx++ {
		mt, p, err := c.ReadMessage()
		var payload []byte
		var declared uint64
		complete := false
		switch {
		case idx < len(ref.Msgs):
			payload, declared, complete = ref.Msgs[idx].Data, ref.Declared[idx], true
		case ref.Tail == "payload":
			payload, declared = ref.TailHave, ref.TailDecl
		}
		if err != nil {
			firstErr = err
			if len(p) > len(payload) || string(p) != string(payload[:min(len(p), len(payload))]) {
				fail("bytes-not-from-stream", "failing ReadMessage #%d (%v) returned %d payload bytes, the stream supplied %d of the %d declared", idx+1, err, len(p), len(payload), declared)
			}
			if complete && k.failAt < 0 && !(k.limit > 0 && declared > uint64(k.limit)) && declared < 1<<63 {
				fail("message-withheld", "frame #%d (declared %d, limit %d) is complete in the stream but ReadMessage failed with %v", idx+1, declared, k.limit, err)
			}
			break
		}
		if !complete {
			if k.failAt < 0 {
				fail("truncated-as-complete", "ReadMessage #%d reported a complete message of %d bytes, the stream holds %d complete frames (tail %s, %d of %d bytes)", idx+1, len(p), len(ref.Msgs), ref.Tail, len(payload), declared)
			}
			return fails
		}
		if k.limit > 0 && declared > uint64(k.limit) {
			fail("limit-not-enforced", "message #%d of declared length %d returned by ReadMessage with read limit %d", idx+1, declared, k.limit)
		}
		if (mt == wt.BinaryMessage) != ref.Msgs[idx].Binary || string(p) != string(payload) {
			fail("message-bytes", "ReadMessage #%d returned type %d and %d bytes, the frame is binary=%v with %d bytes", idx+1, mt, len(p), ref.Msgs[idx].Binary, len(payload))
		}
	}
	if firstErr == nil {
		fail("no-termination", "ReadMessage did not report an error after %d messages", idx)
		return fails
	}
	for i := 0; i < 3; i++ {
		_, p2, e2 := c.ReadMessage()
		if e2 == nil || len(p2) != 0 {
			fail("not-sticky", "ReadMessage call %d after the failure %v returned err=%v and %d bytes", i+1, firstErr, e2, len(p2))
			break
		}
		if !sameErr(e2, firstErr) && !(isUnexpectedEnd(e2) && isUnexpectedEnd(firstErr)) {
			fail("not-sticky", "ReadMessage call %d after the failure reported %v, the first failure was %v", i+1, e2, firstErr)
			break
		}
	}
	return fails
}

func wtTotalityReader(k wtTotCase) (fails []string, outcome string) {
	ref := wtDecode(k.stream)
	fs := newFakeStream(k.stream)
	fs.failAt, fs.failErr, fs.chunk = k.failAt, k.injErr(), k.chunk
	fs.eofWithData = k.eofWith
	sess := newFakeSession()
	c := wt.NewConn(sess.S, fs, true, k.rb, 0, nil, nil, nil)
	c.SetReadLimit(k.limit)
	cls := fmt.Sprintf("[consume=%s limit%s fault=%v]", k.consume, map[bool]string{true: ">0", false: "=0"}[k.limit > 0], k.failAt >= 0)
	fail := func(kind, format string, a ...any) {
		fails = append(fails, fmt.Sprintf("%s%s: %s (%s)", kind, cls, fmt.Sprintf(format, a...), k))
	}
	defer func() {
		if r := recover(); r != nil {
			fail("reader-panic", "%v", r)
		}
	}()
	idx := 0
	var firstErr error
	errIn := "NextReader"
	var lastReader io.Reader
	for iter := 0; iter < 1<<16 && firstErr == nil; iter++ {
		mt, r, err := c.NextReader()
		if err != nil {
			firstErr = err
			break
		}
		if lastReader != nil {
			// the reader of the previous message is exhausted for good once the next message was announced
			if n, _ := lastReader.Read(make([]byte, 4)); n != 0 {
				fail("stale-reader", "the reader of message #%d returned %d more bytes after message #%d had been announced", idx, n, idx+1)
				return fails, "stale-reader"
			}
		}
		lastReader = r
		var declared uint64
		var payload []byte
		complete := false
		var bin bool
		switch {
		case idx < len(ref.Msgs):
			declared, payload, complete, bin = ref.Declared[idx], ref.Msgs[idx].Data, true, ref.Msgs[idx].Binary
		case ref.Tail == "payload":
			declared, payload, bin = ref.TailDecl, ref.TailHave, ref.TailKind
		default:
			fail("phantom-message", "reader yielded message #%d but the stream holds %d complete frames (tail %s)", idx+1, len(ref.Msgs), ref.Tail)
			return fails, "phantom"
		}
		if (mt == wt.BinaryMessage) != bin || (mt != wt.BinaryMessage && mt != wt.TextMessage) {
			fail("kind", "message #%d announced as type %d, header says binary=%v", idx+1, mt, bin)
		}
		if k.limit > 0 && declared > uint64(k.limit) && k.failAt < 0 {
			fail("limit-not-enforced", "message #%d of declared length %d handed out with read limit %d", idx+1, declared, k.limit)
		}
		want := -1
		switch k.consume {
		case "none":
			want = 0
		case "one":
			want = 1
		case "half":
			want = len(payload) / 2
		}
		var got []byte
		sawEOF := false
		if k.api == "ReadMessage" && k.consume == "all" {
			// ReadMessage semantics re-created on the reader already obtained
			b, e := io.ReadAll(r)
			got = b
			if e != nil {
				firstErr, errIn = e, "Read"
			} else {
				sawEOF = true
			}
		} else {
			sz := 5
			if k.api == "Read1" {
				sz = 1
			}
			if k.api == "Read8K" {
				sz = 8192
			}
			buf := make([]byte, sz)
			for want < 0 || len(got) < want {
				b := buf
				if want >= 0 && want-len(got) < len(b) {
					b = b[:want-len(got)]
				}
				n, e := r.Read(b)
				if n < 0 || n > len(b) {
					fail("read-count", "Read returned n=%d for a %d byte buffer", n, len(b))
					return fails, "bad-n"
				}
				got = append(got, b[:n]...)
				if e == io.EOF {
					sawEOF = true
					break
				}
				if e != nil {
					firstErr, errIn = e, "Read"
					break
				}
				if uint64(len(got)) > declared {
					break
				}
			}
		}
		if uint64(len(got)) > declared {
			fail("more-than-declared", "message #%d: %d payload bytes returned, header declared %d", idx+1, len(got), declared)
		}
		if len(got) > len(payload) || string(got) != string(payload[:min(len(got), len(payload))]) {
			fail("bytes-not-from-stream", "message #%d: returned %d bytes that are not the frame's payload prefix (stream supplied %d)", idx+1, len(got), len(payload))
		}
		if sawEOF && !complete && k.failAt < 0 {
			fail("truncated-as-complete", "message #%d: stream ends after %d of %d declared payload bytes, reader reported a complete message of %d bytes", idx+1, len(payload), declared, len(got))
		}
		if sawEOF && complete && k.failAt < 0 && k.consume == "all" && len(got) != len(payload) {
			fail("short-message", "message #%d: complete frame of %d bytes read as %d bytes", idx+1, len(payload), len(got))
		}
		idx++
	}
	if firstErr == nil {
		fail("no-termination", "reader did not report an error after %d messages", idx)
		return fails, "no-termination"
	}
	outcome = fmt.Sprintf("msgs=%d err-in=%s", idx, errIn)
	// what the failure should be
	if k.failAt < 0 {
		nextDeclared, haveNext := uint64(0), false
		if idx < len(ref.Msgs) {
			nextDeclared, haveNext = ref.Declared[idx], true
		} else if ref.Tail == "payload" && errIn == "NextReader" && idx == len(ref.Msgs) {
			nextDeclared, haveNext = ref.TailDecl, true
		}
		switch {
		case errIn == "NextReader" && haveNext && nextDeclared >= 1<<63:
			outcome += " overflow-length"
		case errIn == "NextReader" && haveNext && k.limit > 0 && nextDeclared > uint64(k.limit):
			if !errors.Is(firstErr, wt.ErrReadLimit) {
				fail("limit-error", "frame of declared length %d over limit %d refused with %v, not the read-limit error", nextDeclared, k.limit, firstErr)
			}
			if !sess.Closed() {
				fail("limit-no-close", "frame of declared length %d over limit %d refused but the session was not closed", nextDeclared, k.limit)
			}
			outcome += " limit"
		case errIn == "NextReader" && idx < len(ref.Msgs):
			// a complete frame within the limit was not delivered
			if k.consume == "all" || ref.Tail == "clean" {
				fail("message-withheld", "frame #%d (declared %d, limit %d) is complete in the stream but NextReader failed with %v", idx+1, nextDeclared, k.limit, firstErr)
			}
		case errIn == "Read":
			// failure while reading message idx-1... idx was already incremented
			if !isUnexpectedEnd(firstErr) {
				fail("truncation-error", "stream ends inside frame #%d, Read failed with %v instead of an unexpected-end error", idx, firstErr)
			}
			if idx-1 < len(ref.Msgs) {
				fail("complete-frame-failed", "frame #%d is complete in the stream but reading it failed with %v", idx, firstErr)
			}
			outcome += " truncated"
		case ref.Tail == "header" || (ref.Tail == "payload" && idx == len(ref.Msgs)):
			if !isUnexpectedEnd(firstErr) {
				fail("truncation-error", "stream ends inside a frame (%s), NextReader failed with %v instead of an unexpected-end error", ref.Tail, firstErr)
			}
			outcome += " truncated"
		case ref.Tail == "payload" && idx == len(ref.Msgs)+1:
			// the truncated message was handed out and (partly) skipped by the application:
			// any error is acceptable, a further message is not (checked above as phantom)
			outcome += " truncated-skipped"
		default:
			outcome += " end"
		}
	} else if !sameErr(firstErr, errInjected) && !isUnexpectedEnd(firstErr) && !errors.Is(firstErr, wt.ErrReadLimit) && firstErr != io.EOF {
		fail("fault-masked", "injected stream failure surfaced as %v", firstErr)
	}
	// sticky: every later read reports the same failure
	for i := 0; i < 3; i++ {
		_, r2, e2 := c.NextReader()
		if e2 == nil || r2 != nil {
			fail("not-sticky", "NextReader call %d after the failure %v returned err=%v reader=%v", i+1, firstErr, e2, r2 != nil)
			break
		}
		if !sameErr(e2, firstErr) && !(errIn == "Read" && isUnexpectedEnd(e2) && isUnexpectedEnd(firstErr)) {
			// a failure first seen by Read may be re-reported by NextReader in its canonical form
			fail("not-sticky", "NextReader call %d after the failure reported %v, the first failure was %v", i+1, e2, firstErr)
			break
		}
	}
	if lastReader != nil {
		n, e := lastReader.Read(make([]byte, 4))
		if n != 0 || e == nil {
			fail("read-after-failure", "Read on the last message reader after the failure returned n=%d err=%v", n, e)
		}
	}
	return fails, outcome
}

func registerC15() {
	alphabet := []byte{0x00, 0x01, 0x7D, 0x7E, 0x7F, 0x80, 0xFE, 0xFF, 'a'}
	limits := []int64{0, 1, 125, 126, 65536}
	consumes := []string{"all", "none", "one", "half"}
	runGroup := func(c *Ctx, id string, stream []byte, lims []int64, faults bool, outcomes map[string]int64) int64 {
		var n int64
		c.Case(id, func() []string {
			var fails []string
			for _, lim := range lims {
				for ci, cons := range consumes {
					modes := []wtTotCase{{stream: stream, limit: lim, consume: cons, failAt: -1, api: "Read5"}}
					if ci == 0 {
						modes = append(modes, wtTotCase{stream: stream, limit: lim, consume: cons, failAt: -1, api: "ReadMessage", rb: 16, chunk: 1},
							wtTotCase{stream: stream, limit: lim, consume: cons, failAt: -1, api: "Read1", chunk: 2})
					}
					for _, k := range modes {
						n++
						f, o := wtTotality(k)
						outcomes[o]++
						fails = append(fails, f...)
					}
				}
			}
			if faults {
				for _, chunk := range []int{0, 1, 3} {
					for failAt := 0; failAt <= len(stream)+1 && failAt < 80; failAt++ {
						for _, to := range []bool{false, true} {
							for _, cons := range []string{"all", "none"} {
								k := wtTotCase{stream: stream, limit: lims[0], consume: cons, failAt: failAt, api: "Read5", chunk: chunk, rb: 16, timeout: to}
								n++
								f, o := wtTotality(k)
								outcomes["fault "+o]++
								fails = append(fails, f...)
							}
							// the same fault under the real ReadMessage, with and without a read limit
							for _, lim := range []int64{0, 65536} {
								n++
								fails = append(fails, wtTotalityReadMessage(wtTotCase{stream: stream, limit: lim, consume: "all", failAt: failAt, api: "ReadMessage", chunk: chunk, rb: 16, timeout: to})...)
							}
						}
					}
				}
			}
			if len(fails) > 3 {
				fails = fails[:3]
			}
			return fails
		})
		return n
	}
	finish := func(c *Ctx, distinct, n int64, outcomes map[string]int64) {
		c.Res.Distinct = distinct
		c.Res.States += distinct
		c.Res.Transitions += n
		for k, v := range outcomes {
			c.Res.Outcomes[k] += v
		}
	}
	// A. every byte string over the header alphabet up to length 5 (thorough 7, sharded)
	for sh := 0; sh < 9; sh++ {
		sh := sh
		register("C15", fmt.Sprintf("strings/first=%02x", alphabet[sh]), false, func(c *Ctx) {
			maxLen := Pick(c, 5, 7)
			outcomes := map[string]int64{}
			var distinct, n int64
			var rec func(cur []byte)
			rec = func(cur []byte) {
				if len(cur) > 0 {
					distinct++
					s := append([]byte(nil), cur...)
					lims := limits
					if len(cur) > 5 {
						lims = []int64{0, 1, 126}
					}
					n += runGroup(c, fmt.Sprintf("string %x", s), s, lims, len(cur) <= 4, outcomes)
				}
				if len(cur) == maxLen {
					return
				}
				for _, a := range alphabet {
					rec(append(cur, a))
				}
			}
			rec([]byte{alphabet[sh]})
			if sh == 0 {
				distinct++
				n += runGroup(c, "string (empty)", nil, limits, true, outcomes)
			}
			finish(c, distinct, n, outcomes)
			c.Sample(fmt.Sprintf("string %x…", alphabet[sh]))
			c.Note("every byte string of length <=%d over {00,01,7D,7E,7F,80,FE,FF,'a'} starting with %02x x read limits {0,1,125,126,65536} x consumption {all,none,1 byte,half} x reader APIs; strings <=4 also with a stream error injected at every read index", maxLen, alphabet[sh])
		})
	}
	// B. every truncation of valid 1-3 frame streams
	register("C15", "truncations", false, func(c *Ctx) {
		outcomes := map[string]int64{}
		var distinct, n int64
		lens := []int{0, 1, 5, 125, 126, 127, 300}
		var frames [][]byte
		for _, ln := range lens {
			for _, bin := range []bool{false, true} {
				for form := 0; form < 3; form++ {
					if ln >= 126 && form == 0 || ln < 126 || form > 0 {
						frames = append(frames, wtEncode(wtMsg{bin, wtPayload(ln, bin)}, form))
					}
				}
			}
		}
		big := wtEncode(wtMsg{true, wtPayload(65536, true)}, 0)
		var streams [][]byte
		for _, a := range frames {
			streams = append(streams, a)
		}
		pick := frames
		if !c.Thorough() {
			pick = nil
			for i, f := range frames {
				if i%3 == 0 {
					pick = append(pick, f)
				}
			}
		}
		for _, a := range pick {
			for _, b := range pick {
				streams = append(streams, append(append([]byte(nil), a...), b...))
			}
		}
		if c.Thorough() {
			for i, a := range pick {
				for j, b := range pick {
					if (i+j)%4 == 0 {
						streams = append(streams, append(append(append([]byte(nil), a...), b...), pick[(i*7+j)%len(pick)]...))
					}
				}
			}
		}
		for si, s := range streams {
			step := 1
			if len(s) > 400 {
				step = 37
			}
			for cut := 0; cut <= len(s); cut += step {
				distinct++
				n += runGroup(c, fmt.Sprintf("truncation stream#%d cut=%d/%d", si, cut, len(s)), s[:cut], []int64{0, 126, 4}, false, outcomes)
			}
		}
		for _, cut := range []int{1, 2, 8, 9, 10, 100, 65535 + 9, 65536 + 9} {
			distinct++
			n += runGroup(c, fmt.Sprintf("truncation 64KiB-frame cut=%d", cut), big[:cut], []int64{0, 65536, 65535}, false, outcomes)
		}
		// large frames cut beyond the first fill of the read buffer, the stream handing over its last
		// bytes together with EOF, consumers with large buffers
		for _, ln := range []int{5000, 9000, 40000} {
			for _, bin := range []bool{false, true} {
				full := wtEncode(wtMsg{bin, wtPayload(ln, bin)}, 0)
				for _, cut := range []int{4090, 4096, 4099, 4100, 4500, 8200, 33000, len(full) - 1, len(full)} {
					if cut > len(full) {
						continue
					}
					for _, ew := range []bool{false, true} {
						for _, api := range []string{"ReadMessage", "Read8K", "Read5"} {
							distinct++
							k := wtTotCase{stream: full[:cut], consume: "all", failAt: -1, api: api, eofWith: ew}
							id := fmt.Sprintf("big truncation len=%d bin=%v cut=%d api=%s eof-with-data=%v", ln, bin, cut, api, ew)
							c.Case(id, func() []string {
								n++
								f, o := wtTotality(k)
								outcomes[o]++
								return f
							})
						}
					}
				}
			}
		}
		finish(c, distinct, n, outcomes)
		c.Sample("truncation stream#3 cut=2/4")
		c.Note("every truncation offset of valid streams of 1-2 (thorough 3) frames over lengths {0,1,5,125,126,127,300} x kinds x length forms, plus a 64 KiB frame")
	})
	// C. 64-bit length fields
	register("C15", "length64", false, func(c *Ctx) {
		outcomes := map[string]int64{}
		var distinct, n int64
		vals := []uint64{0, 1, 2, 1 << 31, 1<<31 + 1, 1<<32 - 1, 1 << 32, 1<<63 - 1, 1 << 63, 1<<63 + 1, 1<<64 - 1}
		for _, v := range vals {
			for _, bin := range []bool{false, true} {
				for _, tail := range [][]byte{nil, {'x'}, []byte("xyzxyzxyz"), wtEncode(wtMsg{false, []byte("ok")}, 0)} {
					for _, prefix := range [][]byte{nil, wtEncode(wtMsg{true, []byte{1, 2, 3}}, 0)} {
						h := byte(127)
						if bin {
							h |= 0x80
						}
						s := append([]byte(nil), prefix...)
						s = append(s, h, byte(v>>56), byte(v>>48), byte(v>>40), byte(v>>32), byte(v>>24), byte(v>>16), byte(v>>8), byte(v))
						s = append(s, tail...)
						distinct++
						n += runGroup(c, fmt.Sprintf("len64=%d bin=%v tail=%d prefix=%d", v, bin, len(tail), len(prefix)), s, []int64{0, 1, 125, 65536, 1 << 40}, len(tail) < 5, outcomes)
					}
				}
			}
		}
		finish(c, distinct, n, outcomes)
		c.Sample("len64=9223372036854775808 bin=false tail=1 prefix=0")
		c.Note("64-bit length fields {0,1,2,2^31,2^31+1,2^32-1,2^32,2^63-1,2^63,2^63+1,2^64-1} x kind x trailing bytes x preceding frame x read limits")
	})
	// D. the documented guard: the 1000th read of a failed connection panics, earlier ones do not
	register("C15", "thousandth-read", false, func(c *Ctx) {
		c.Case("1000 reads after failure", func() (fails []string) {
			fs := newFakeStream([]byte{0x7e, 0x01}) // ends inside the header
			conn := wt.NewConn(newFakeSession().S, fs, true, 0, 0, nil, nil, nil)
			var first error
			defer func() {
				r := recover()
				if r == nil {
					return
				}
				fails = append(fails, fmt.Sprintf("reader-panic[guard]: panic before the documented 1000th repeated read: %v", r))
			}()
			for i := 1; i <= 999; i++ {
				_, _, err := conn.NextReader()
				if err == nil {
					return []string{"not-sticky[guard]: a failed connection returned a message"}
				}
				if first == nil {
					first = err
				} else if !sameErr(first, err) {
					return []string{fmt.Sprintf("not-sticky[guard]: read %d reported %v, first failure %v", i, err, first)}
				}
			}
			return nil
		})
		c.Res.Distinct = 1
		c.Res.States++
		c.Res.Transitions += 999
	})
}
