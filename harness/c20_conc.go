package harness

import (
	"encoding/base64"
	"fmt"
	"regexp"
	"sort"
	"strings"
	"time"

	"github.com/zishang520/engine.io/v2/types"
	"github.com/zishang520/engine.io/v2/utils"
	"verifrt/vsched"
	"verifrt/vtime"
)

// C20, concurrent half (E1): 2-3 threads with 1-2 operations each on one shared
// container, every interleaving of their lock/atomic steps; each complete history
// (call/return stamps + results) must have a linearization in the reference model.

type linOp struct {
	name  string
	real  func() string
	model func(st any) (any, string) // returns new state and result
}

type histEv struct {
	thread, idx int
	call, ret   int
	res         string
	op          *linOp
}

// linearizable: brute force over all orders consistent with per-thread order and real time.
func linearizable(init any, hist []histEv) bool {
	n := len(hist)
	used := make([]bool, n)
	var rec func(st any, done int) bool
	rec = func(st any, done int) bool {
		if done == n {
			return true
		}
		for i := 0; i < n; i++ {
			if used[i] {
				continue
			}
			// i may go next only if no unused op returned before i was called
			ok := true
			for j := 0; j < n; j++ {
				if j != i && !used[j] && hist[j].ret < hist[i].call {
					ok = false
					break
				}
			}
			if !ok {
				continue
			}
			ns, res := hist[i].op.model(st)
			if res != hist[i].res {
				continue
			}
			used[i] = true
			if rec(ns, done+1) {
				used[i] = false
				return true
			}
			used[i] = false
		}
		return false
	}
	return rec(init, 0)
}

type linScenario struct {
	kind    string
	init    func() (ops map[string]*linOp, initState any)
	threads [][]string
}

func (s linScenario) id() string {
	var parts []string
	for _, t := range s.threads {
		parts = append(parts, strings.Join(t, ","))
	}
	return s.kind + ": " + strings.Join(parts, " || ")
}

func linBody(sc linScenario) vsched.Body {
	return func(x *vsched.Exec) {
		ops, init := sc.init()
		var hist []histEv
		clock := 0
		done := 0
		for ti, prog := range sc.threads {
			ti, prog := ti, prog
			vsched.GoNamed(fmt.Sprintf("t%d", ti), func() {
				for i, name := range prog {
					op := ops[name]
					clock++
					k := len(hist)
					hist = append(hist, histEv{thread: ti, idx: i, call: clock, ret: 1 << 30, op: op})
					r := op.real()
					clock++
					hist[k].ret = clock
					hist[k].res = r
				}
				done++
			})
		}
		x.Run(time.Second)
		for _, t := range x.Panics() {
			x.Fail("panic[%s]: thread %s: %v (%s)", sc.kind, t.Name, t.Panic, sc.id())
		}
		if done != len(sc.threads) {
			x.Fail("deadlock[%s]: %d of %d threads did not finish (%s) blocked=%v", sc.kind, len(sc.threads)-done, len(sc.threads), sc.id(), x.Blocked())
			return
		}
		if !linearizable(init, hist) {
			var hs []string
			for _, h := range hist {
				hs = append(hs, fmt.Sprintf("t%d:%s[%d..%d]=%s", h.thread, h.op.name, h.call, h.ret, h.res))
			}
			opset := map[string]bool{}
			for _, h := range hist {
				opset[strings.SplitN(h.op.name, "(", 2)[0]] = true
			}
			x.Fail("not-linearizable[%s %s]: history %v has no linearization (%s)", sc.kind, strings.Join(sortedKeys(opset), "+"), hs, sc.id())
		}
		var rs []string
		for _, h := range hist {
			rs = append(rs, h.res)
		}
		x.Outcome = strings.Join(rs, "|")
	}
}

func cloneInts(a []int) []int { return append([]int{}, a...) }

func sliceLinOps() (map[string]*linOp, any) {
	s := types.NewSlice[int](1, 2)
	ops := map[string]*linOp{}
	add := func(name string, real func() string, model func(m []int) ([]int, string)) {
		ops[name] = &linOp{name, real, func(st any) (any, string) { return model(cloneInts(st.([]int))) }}
	}
	for _, v := range []int{3, 4} {
		v := v
		add(fmt.Sprintf("Push(%d)", v), func() string { return fmt.Sprint(s.Push(v)) }, func(m []int) ([]int, string) { m = append(m, v); return m, fmt.Sprint(len(m)) })
		add(fmt.Sprintf("Unshift(%d)", v), func() string { return fmt.Sprint(s.Unshift(v)) }, func(m []int) ([]int, string) {
			m = append([]int{v}, m...)
			return m, fmt.Sprint(len(m))
		})
	}
	add("Pop", func() string { v, err := s.Pop(); return fmt.Sprint(v, errStr(err)) }, func(m []int) ([]int, string) {
		if len(m) == 0 {
			return m, fmt.Sprint(0, "error")
		}
		return m[:len(m)-1], fmt.Sprint(m[len(m)-1], "ok")
	})
	add("Shift", func() string { v, err := s.Shift(); return fmt.Sprint(v, errStr(err)) }, func(m []int) ([]int, string) {
		if len(m) == 0 {
			return m, fmt.Sprint(0, "error")
		}
		return m[1:], fmt.Sprint(m[0], "ok")
	})
	add("Len", func() string { return fmt.Sprint(s.Len()) }, func(m []int) ([]int, string) { return m, fmt.Sprint(len(m)) })
	add("All", func() string { return fmt.Sprint(s.All()) }, func(m []int) ([]int, string) { return m, fmt.Sprint(m) })
	add("AllAndClear", func() string { return fmt.Sprint(s.AllAndClear()) }, func(m []int) ([]int, string) { return []int{}, fmt.Sprint(m) })
	add("Clear", func() string { s.Clear(); return "" }, func(m []int) ([]int, string) { return []int{}, "" })
	add("Get(0)", func() string { v, err := s.Get(0); return fmt.Sprint(v, errStr(err)) }, func(m []int) ([]int, string) {
		if len(m) == 0 {
			return m, fmt.Sprint(0, "error")
		}
		return m, fmt.Sprint(m[0], "ok")
	})
	add("Set(0,9)", func() string { return errStr(s.Set(0, 9)) }, func(m []int) ([]int, string) {
		if len(m) == 0 {
			return m, "error"
		}
		m[0] = 9
		return m, "ok"
	})
	add("Splice(0,1,7)", func() string { r, err := s.Splice(0, 1, 7); return fmt.Sprint(r, errStr(err)) }, func(m []int) ([]int, string) {
		r, _ := mSplice(&m, 0, 1, []int{7})
		return m, fmt.Sprint(r, "ok")
	})
	add("Remove(==1)", func() string { s.Remove(func(v int) bool { return v == 1 }); return "" }, func(m []int) ([]int, string) {
		for i, v := range m {
			if v == 1 {
				return append(append([]int{}, m[:i]...), m[i+1:]...), ""
			}
		}
		return m, ""
	})
	add("Remove(==2)", func() string { s.Remove(func(v int) bool { return v == 2 }); return "" }, func(m []int) ([]int, string) {
		for i, v := range m {
			if v == 2 {
				return append(append([]int{}, m[:i]...), m[i+1:]...), ""
			}
		}
		return m, ""
	})
	add("RemoveAll(even)", func() string { s.RemoveAll(func(v int) bool { return v%2 == 0 }); return "" }, func(m []int) ([]int, string) {
		out := []int{}
		for _, v := range m {
			if v%2 != 0 {
				out = append(out, v)
			}
		}
		return out, ""
	})
	add("RangeAndSplice(even)", func() string {
		r, err := s.RangeAndSplice(func(v, i int) (bool, int, int, []int) { return v%2 == 0, i, 1, nil })
		return fmt.Sprint(r, errStr(err))
	}, func(m []int) ([]int, string) {
		for i, v := range m {
			if v%2 == 0 {
				r, _ := mSplice(&m, i, 1, nil)
				return m, fmt.Sprint(r, "ok")
			}
		}
		return m, fmt.Sprint([]int(nil), "ok")
	})
	return ops, []int{1, 2}
}

func setLinOps() (map[string]*linOp, any) {
	s := types.NewSet[int](1)
	ops := map[string]*linOp{}
	clone := func(m map[int]bool) map[int]bool {
		o := map[int]bool{}
		for k := range m {
			o[k] = true
		}
		return o
	}
	keys := func(m map[int]bool) string {
		var k []int
		for v := range m {
			k = append(k, v)
		}
		sort.Ints(k)
		return fmt.Sprint(k)
	}
	add := func(name string, real func() string, model func(m map[int]bool) string) {
		ops[name] = &linOp{name, real, func(st any) (any, string) { m := clone(st.(map[int]bool)); r := model(m); return m, r }}
	}
	add("Add(1)", func() string { return fmt.Sprint(s.Add(1)) }, func(m map[int]bool) string { m[1] = true; return "true" })
	add("Add(2,3)", func() string { return fmt.Sprint(s.Add(2, 3)) }, func(m map[int]bool) string { m[2], m[3] = true, true; return "true" })
	add("Delete(1)", func() string { return fmt.Sprint(s.Delete(1)) }, func(m map[int]bool) string { delete(m, 1); return "true" })
	add("Delete(2,3)", func() string { return fmt.Sprint(s.Delete(2, 3)) }, func(m map[int]bool) string { delete(m, 2); delete(m, 3); return "true" })
	add("Has(1)", func() string { return fmt.Sprint(s.Has(1)) }, func(m map[int]bool) string { return fmt.Sprint(m[1]) })
	add("Has(3)", func() string { return fmt.Sprint(s.Has(3)) }, func(m map[int]bool) string { return fmt.Sprint(m[3]) })
	add("Len", func() string { return fmt.Sprint(s.Len()) }, func(m map[int]bool) string { return fmt.Sprint(len(m)) })
	add("Keys", func() string { k := s.Keys(); sort.Ints(k); return fmt.Sprint(k) }, func(m map[int]bool) string { return keys(m) })
	add("Clear", func() string { s.Clear(); return "" }, func(m map[int]bool) string {
		for k := range m {
			delete(m, k)
		}
		return ""
	})
	return ops, map[int]bool{1: true}
}

func mapLinOps() (map[string]*linOp, any) {
	s := &types.Map[int, int]{}
	s.Store(1, 10)
	ops := map[string]*linOp{}
	clone := func(m map[int]int) map[int]int {
		o := map[int]int{}
		for k, v := range m {
			o[k] = v
		}
		return o
	}
	add := func(name string, real func() string, model func(m map[int]int) string) {
		ops[name] = &linOp{name, real, func(st any) (any, string) { m := clone(st.(map[int]int)); r := model(m); return m, r }}
	}
	for _, k := range []int{1, 2} {
		k := k
		add(fmt.Sprintf("Store(%d,20)", k), func() string { s.Store(k, 20); return "" }, func(m map[int]int) string { m[k] = 20; return "" })
		add(fmt.Sprintf("Load(%d)", k), func() string { v, ok := s.Load(k); return fmt.Sprint(v, ok) }, func(m map[int]int) string { v, ok := m[k]; return fmt.Sprint(v, ok) })
		add(fmt.Sprintf("LoadOrStore(%d,30)", k), func() string { v, ok := s.LoadOrStore(k, 30); return fmt.Sprint(v, ok) }, func(m map[int]int) string {
			v, ok := m[k]
			if !ok {
				m[k] = 30
				v = 30
			}
			return fmt.Sprint(v, ok)
		})
		add(fmt.Sprintf("LoadAndDelete(%d)", k), func() string { v, ok := s.LoadAndDelete(k); return fmt.Sprint(v, ok) }, func(m map[int]int) string {
			v, ok := m[k]
			delete(m, k)
			return fmt.Sprint(v, ok)
		})
		add(fmt.Sprintf("Delete(%d)", k), func() string { s.Delete(k); return "" }, func(m map[int]int) string { delete(m, k); return "" })
		add(fmt.Sprintf("Swap(%d,40)", k), func() string { v, ok := s.Swap(k, 40); return fmt.Sprint(v, ok) }, func(m map[int]int) string {
			v, ok := m[k]
			m[k] = 40
			return fmt.Sprint(v, ok)
		})
		add(fmt.Sprintf("CompareAndSwap(%d,10,50)", k), func() string { return fmt.Sprint(s.CompareAndSwap(k, 10, 50)) }, func(m map[int]int) string {
			if v, ok := m[k]; ok && v == 10 {
				m[k] = 50
				return "true"
			}
			return "false"
		})
		add(fmt.Sprintf("CompareAndDelete(%d,10)", k), func() string { return fmt.Sprint(s.CompareAndDelete(k, 10)) }, func(m map[int]int) string {
			if v, ok := m[k]; ok && v == 10 {
				delete(m, k)
				return "true"
			}
			return "false"
		})
	}
	add("Clear", func() string { s.Clear(); return "" }, func(m map[int]int) string {
		for k := range m {
			delete(m, k)
		}
		return ""
	})
	return ops, map[int]int{1: 10}
}

func linPrograms(alphabet []string, maxLen int) [][]string {
	var out [][]string
	for _, a := range alphabet {
		out = append(out, []string{a})
	}
	if maxLen >= 2 {
		for _, a := range alphabet {
			for _, b := range alphabet {
				out = append(out, []string{a, b})
			}
		}
	}
	return out
}

func registerLin(kind string, init func() (map[string]*linOp, any), quickAlpha, fullAlpha []string, parts int) {
	for part := 0; part < parts; part++ {
		part := part
		register("C20", fmt.Sprintf("lin/%s/2threads/part%d", kind, part), false, func(c *Ctx) {
			alpha := quickAlpha
			if c.Thorough() {
				alpha = fullAlpha
			}
			progs := linPrograms(alpha, 2)
			n := 0
			for i, p := range progs {
				for _, q := range progs[i:] {
					if len(p)+len(q) > Pick(c, 3, 4) {
						continue
					}
					sc := linScenario{kind, init, [][]string{p, q}}
					n++
					if n%parts != part {
						continue
					}
					c.Explore(sc.id(), 10, linBody(sc))
					if n%211 == 1 {
						c.Sample(sc.id())
					}
				}
			}
			c.Res.Distinct = int64((n + parts - 1 - part) / parts)
			c.Note("all unordered pairs of thread programs (1-2 operations each, <=%d operations in total) over %v on one shared %s; every interleaving of the lock/atomic steps (preemption bound 10 = unbounded for these threads, DPOR); each history checked for a linearization by brute force (this unit: scenarios with index = %d mod %d)", Pick(c, 3, 4), alpha, kind, part, parts)
		})
	}
	register("C20", "lin/"+kind+"/3threads", true, func(c *Ctx) {
		n := 0
		for i, a := range quickAlpha {
			for j, b := range quickAlpha[i:] {
				for _, d := range quickAlpha[i+j:] {
					sc := linScenario{kind, init, [][]string{{a}, {b}, {d}}}
					n++
					c.Explore(sc.id(), 10, linBody(sc))
				}
			}
		}
		c.Res.Distinct = int64(n)
		c.Note("all multisets of three single-operation threads over %v", quickAlpha)
	})
}

var urlSafe = regexp.MustCompile(`^[A-Za-z0-9_.-]+$`)

func init() {
	registerLin("slice", sliceLinOps,
		[]string{"Push(3)", "Unshift(4)", "Pop", "Shift", "AllAndClear", "Splice(0,1,7)", "Len", "RangeAndSplice(even)", "Remove(==1)", "Remove(==2)"},
		[]string{"Push(3)", "Push(4)", "Unshift(3)", "Unshift(4)", "Pop", "Shift", "Len", "All", "AllAndClear", "Clear", "Get(0)", "Set(0,9)", "Splice(0,1,7)", "RemoveAll(even)", "RangeAndSplice(even)", "Remove(==1)", "Remove(==2)"}, 3)
	registerLin("set", setLinOps,
		[]string{"Add(1)", "Add(2,3)", "Delete(1)", "Has(1)", "Len", "Clear", "Keys"},
		[]string{"Add(1)", "Add(2,3)", "Delete(1)", "Delete(2,3)", "Has(1)", "Has(3)", "Len", "Keys", "Clear"}, 1)
	registerLin("map", mapLinOps,
		[]string{"Store(1,20)", "Load(1)", "LoadOrStore(1,30)", "LoadAndDelete(1)", "Swap(1,40)", "CompareAndSwap(1,10,50)", "CompareAndDelete(1,10)", "Store(2,20)", "Clear"},
		[]string{"Store(1,20)", "Load(1)", "LoadOrStore(1,30)", "LoadAndDelete(1)", "Delete(1)", "Swap(1,40)", "CompareAndSwap(1,10,50)", "CompareAndDelete(1,10)", "Store(2,20)", "Load(2)", "LoadOrStore(2,30)", "Delete(2)", "Clear"}, 14)

	// emitter under concurrent use
	register("C20", "conc/emitter", false, func(c *Ctx) {
		type th struct {
			name string
			run  func(e types.EventEmitter, log *[]string)
		}
		l1 := func(log *[]string) types.Listener { return func(...any) { *log = append(*log, "L1") } }
		acts := []string{"Emit", "Emit2", "Remove(L1)", "On(L3)", "Once(L3)", "RemoveAll", "RemoveOnce(L2)"}
		n := 0
		for i, a := range acts {
			for _, b := range acts[i:] {
				for _, third := range []string{"", "Emit"} {
					if third != "" && !c.Thorough() && !(a == "Emit" && b == "Emit") {
						continue
					}
					a, b, third := a, b, third
					id := fmt.Sprintf("emitter: %s || %s || %s", a, b, third)
					n++
					c.Explore(id, Pick(c, 3, 10), func(x *vsched.Exec) {
						e := types.NewEventEmitter()
						var log []string
						L1 := l1(&log)
						L2 := func(...any) { log = append(log, "L2") }
						L3 := func(...any) { log = append(log, "L3") }
						e.On("a", L1)
						e.Once("a", L2)
						emits := 0
						run := func(act string) {
							switch act {
							case "Emit":
								e.Emit("a")
								emits++
							case "Emit2":
								e.Emit("a")
								e.Emit("a")
								emits += 2
							case "Remove(L1)":
								e.RemoveListener("a", L1)
							case "RemoveOnce(L2)":
								e.RemoveListener("a", L2)
							case "On(L3)":
								e.On("a", L3)
							case "Once(L3)":
								e.Once("a", L3)
							case "RemoveAll":
								e.RemoveAllListeners("a")
							}
						}
						done := 0
						for _, act := range []string{a, b, third} {
							if act == "" {
								done++
								continue
							}
							act := act
							vsched.GoNamed(act, func() { run(act); done++ })
						}
						x.Run(time.Second)
						for _, t := range x.Panics() {
							x.Fail("panic[emitter]: thread %s: %v (%s)", t.Name, t.Panic, id)
						}
						if done != 3 {
							x.Fail("deadlock[emitter]: threads did not finish (%s) blocked=%v", id, x.Blocked())
							return
						}
						cnt := map[string]int{}
						for _, l := range log {
							cnt[l]++
						}
						if cnt["L2"] > 1 {
							x.Fail("once-twice[emitter]: a Once listener ran %d times under concurrent emits (%s)", cnt["L2"], id)
						}
						removed := a == "Remove(L1)" || b == "Remove(L1)" || a == "RemoveAll" || b == "RemoveAll"
						if !removed && cnt["L1"] != emits {
							x.Fail("emit-count[emitter]: listener registered before every emit ran %d times for %d emits (%s)", cnt["L1"], emits, id)
						}
						if cnt["L1"] > emits {
							x.Fail("emit-count[emitter]: listener ran %d times for %d emits (%s)", cnt["L1"], emits, id)
						}
						onceRemoved := removed || a == "RemoveOnce(L2)" || b == "RemoveOnce(L2)"
						if emits > 0 && !onceRemoved && cnt["L2"] != 1 {
							x.Fail("once-lost[emitter]: Once listener registered before every emit ran %d times (%s)", cnt["L2"], id)
						}
						// afterwards the Once registration must be gone
						log = nil
						x.Frozen = true
						vsched.GoNamed("final-emit", func() { e.Emit("a") })
						x.Run(2 * time.Second)
						for _, l := range log {
							if l == "L2" && cnt["L2"] > 0 {
								x.Fail("once-twice[emitter]: the Once listener ran again on a later emit (%s)", id)
							}
						}
						x.Outcome = fmt.Sprint(cnt)
					})
				}
			}
		}
		c.Res.Distinct = int64(n)
		c.Sample("emitter: Emit || Emit || Emit")
		c.Note("pairs (thorough: plus a third emitting thread) of concurrent emitter actions on an event with one On and one Once listener; every interleaving up to the bound")
	})

	// id helpers under concurrent use
	register("C20", "conc/yeast", false, func(c *Ctx) {
		n := 0
		for _, threads := range Pick(c, []int{2}, []int{2, 3}) {
			for _, calls := range []int{1, 2} {
				for _, stagger := range []int{0, 1} {
					threads, calls, stagger := threads, calls, stagger
					id := fmt.Sprintf("yeast: %d threads x %d calls stagger=%dms", threads, calls, stagger)
					n++
					c.Explore(id, Pick(c, 3, 10), func(x *vsched.Exec) {
						y := utils.NewYeast()
						var got []string
						done := 0
						for t := 0; t < threads; t++ {
							t := t
							vsched.GoNamed(fmt.Sprintf("y%d", t), func() {
								for i := 0; i < calls; i++ {
									if stagger > 0 && i > 0 && t == 0 {
										vsched.Sleep(time.Duration(stagger) * time.Millisecond)
									}
									got = append(got, y.Yeast())
								}
								done++
							})
						}
						x.Run(time.Second)
						for _, t := range x.Panics() {
							x.Fail("panic[yeast]: %v", t.Panic)
						}
						if done != threads {
							x.Fail("deadlock[yeast]: threads blocked: %v", x.Blocked())
						}
						seen := map[string]bool{}
						for _, g := range got {
							if seen[g] {
								x.Fail("duplicate-id[yeast concurrent]: Yeast() returned %q twice; all values %v (%s)", g, got, id)
								break
							}
							seen[g] = true
							if !urlSafe.MatchString(g) {
								x.Fail("id-charset[yeast]: %q", g)
							}
						}
						x.Outcome = fmt.Sprint(len(seen))
					})
				}
			}
		}
		// the wall clock moves while a caller is between reading it and the rest of the call (a harness
		// thread moves it as one of its scheduled steps)
		for _, threads := range Pick(c, []int{2}, []int{2, 3}) {
			threads := threads
			id := fmt.Sprintf("yeast: %d threads x 2 calls, the clock moves by 1ms at any point", threads)
			n++
			c.Explore(id, Pick(c, 2, 3), func(x *vsched.Exec) {
				vtime.ResetWallSkew()
				defer vtime.ResetWallSkew()
				y := utils.NewYeast()
				var got []string
				done := 0
				for t := 0; t < threads; t++ {
					vsched.GoNamed(fmt.Sprintf("y%d", t), func() {
						for i := 0; i < 2; i++ {
							got = append(got, y.Yeast())
						}
						done++
					})
				}
				vsched.GoNamed("clock", func() {
					vsched.Yield("clock-tick")
					vtime.AddWallSkew(time.Millisecond)
				})
				x.Run(time.Second)
				if done != threads {
					x.Fail("deadlock[yeast]: threads blocked: %v", x.Blocked())
				}
				seen := map[string]bool{}
				for _, g := range got {
					if seen[g] {
						x.Fail("duplicate-id[yeast concurrent clock-moves]: Yeast() returned an id twice; %d values, %d distinct (%s)", len(got), len(seen), id)
						break
					}
					seen[g] = true
				}
				x.Outcome = fmt.Sprint(len(seen))
			})
		}
		// sequential: many calls within one millisecond and across boundaries
		c.Once("yeast: sequential 200 calls", func(x *vsched.Exec) {
			y := utils.NewYeast()
			seen := map[string]bool{}
			vsched.GoNamed("seq", func() {
				for i := 0; i < 200; i++ {
					if i%70 == 69 {
						vsched.Sleep(time.Millisecond)
					}
					g := y.Yeast()
					if seen[g] {
						x.Fail("duplicate-id[yeast sequential]: %q returned twice (call %d)", g, i)
						return
					}
					seen[g] = true
				}
			})
			x.Run(time.Second)
		})
		c.Res.Distinct = int64(n + 1)
		c.Note("2 (thorough 3) threads x 1-2 Yeast() calls within one virtual millisecond and across a millisecond boundary, every interleaving of the atomic steps up to the bound; 200 sequential calls")
	})
	for _, prop := range []string{"C20", "C04"} {
		register(prop, "conc/base64id", false, func(c *Ctx) {
			c.Explore("base64id: 3 threads x 2 calls", Pick(c, 3, 10), func(x *vsched.Exec) {
				var got []string
				for t := 0; t < 3; t++ {
					vsched.GoNamed(fmt.Sprintf("g%d", t), func() {
						for i := 0; i < 2; i++ {
							id, err := utils.Base64Id().GenerateId()
							if err != nil {
								x.Fail("id-error[base64id]: %v", err)
							}
							got = append(got, id)
						}
					})
				}
				x.Run(time.Second)
				seen := map[string]bool{}
				for _, g := range got {
					if seen[g] {
						x.Fail("duplicate-id[base64id]: %q twice", g)
					}
					seen[g] = true
					if !urlSafe.MatchString(g) || strings.Contains(g, ".") {
						x.Fail("id-charset[base64id]: %q", g)
					}
				}
				// the part of the id that makes reuse impossible is the sequence number folded into it
				// (last 8 of the 18 decoded bytes): it must differ between any two ids, whatever the random part
				seqs := map[string]bool{}
				for _, g := range got {
					raw, err := base64.RawURLEncoding.DecodeString(g)
					if err != nil || len(raw) != 18 {
						x.Fail("id-shape[base64id]: %q does not decode to 18 bytes", g)
						continue
					}
					k := string(raw[10:])
					if seqs[k] {
						x.Fail("duplicate-sequence[base64id]: two ids generated concurrently carry the same sequence number (uniqueness would rest on the random bytes alone)")
					}
					seqs[k] = true
				}
				if len(got) != 6 {
					x.Fail("deadlock[base64id]: %d of 6 calls returned", len(got))
				}
				x.Outcome = fmt.Sprint(len(seen))
			})
			c.Res.Distinct = 1
		})
	}
}
