package harness

import (
	"fmt"
	"math"
	"sort"
	"strings"

	"github.com/zishang520/engine.io/v2/events"
	"github.com/zishang520/engine.io/v2/types"
)

// C20, sequential half: explicit-state BFS over the method sets of Slice, Set,
// Map and the event emitter against plain reference models. A successor state is
// produced by replaying the shortest path on a fresh real object plus one
// operation (live objects are not cloned).

// ---------- Slice ----------

type sliceOp struct {
	name string
	// run applies the op to the real slice and to the model; returns a rendering
	// of the real result and of the model's, and aliasing failures.
	run func(s *types.Slice[int], m *[]int) (got, want string, alias string)
}

const sentinel = -99

// ownedArg returns a caller-owned slice of the given values with spare capacity
// filled with sentinels, plus the backing array for the aliasing oracle.
func ownedArg(vals ...int) (arg, backing []int) {
	backing = make([]int, len(vals)+3)
	copy(backing, vals)
	for i := len(vals); i < len(backing); i++ {
		backing[i] = sentinel
	}
	return backing[:len(vals):len(backing)], backing
}

// aliasCheck: after the operation, (1) the caller's spare capacity is untouched,
// (2) overwriting the caller's elements does not change the container.
func aliasCheck(s *types.Slice[int], arg, backing []int, model []int) string {
	for i := len(arg); i < len(backing); i++ {
		if backing[i] != sentinel {
			return fmt.Sprintf("wrote %d into the spare capacity of the caller's slice", backing[i])
		}
	}
	for i := range arg {
		backing[i] = 1000 + i
	}
	now := s.All()
	if fmt.Sprint(now) != fmt.Sprint(model) {
		return fmt.Sprintf("container changed from %v to %v when the caller overwrote its own slice afterwards", model, now)
	}
	return ""
}

func errStr(err error) string {
	if err != nil {
		return "error"
	}
	return "ok"
}

func mSplice(m *[]int, start, del int, ins []int) (removed []int, ok bool) {
	if start < 0 || start > len(*m) {
		return nil, false
	}
	if del > len(*m)-start {
		del = len(*m) - start
	}
	removed = append([]int{}, (*m)[start:start+del]...)
	out := append([]int{}, (*m)[:start]...)
	out = append(out, ins...)
	out = append(out, (*m)[start+del:]...)
	*m = out
	return removed, true
}

func sliceOps() []sliceOp {
	var ops []sliceOp
	add := func(name string, run func(s *types.Slice[int], m *[]int) (string, string, string)) {
		ops = append(ops, sliceOp{name, run})
	}
	for _, vals := range [][]int{{}, {1}, {2, 3}} {
		vals := vals
		add(fmt.Sprintf("Push%v", vals), func(s *types.Slice[int], m *[]int) (string, string, string) {
			arg, backing := ownedArg(vals...)
			n := s.Push(arg...)
			*m = append(*m, vals...)
			return fmt.Sprint(n), fmt.Sprint(len(*m)), aliasCheck(s, arg, backing, *m)
		})
		add(fmt.Sprintf("Unshift%v", vals), func(s *types.Slice[int], m *[]int) (string, string, string) {
			arg, backing := ownedArg(vals...)
			n := s.Unshift(arg...)
			*m = append(append([]int{}, vals...), *m...)
			return fmt.Sprint(n), fmt.Sprint(len(*m)), aliasCheck(s, arg, backing, *m)
		})
	}
	add("Pop", func(s *types.Slice[int], m *[]int) (string, string, string) {
		v, err := s.Pop()
		if len(*m) == 0 {
			return errStr(err), "error", ""
		}
		w := (*m)[len(*m)-1]
		*m = (*m)[:len(*m)-1]
		return fmt.Sprint(v, errStr(err)), fmt.Sprint(w, "ok"), ""
	})
	add("Shift", func(s *types.Slice[int], m *[]int) (string, string, string) {
		v, err := s.Shift()
		if len(*m) == 0 {
			return errStr(err), "error", ""
		}
		w := (*m)[0]
		*m = (*m)[1:]
		return fmt.Sprint(v, errStr(err)), fmt.Sprint(w, "ok"), ""
	})
	for _, i := range []int{-1, 0, 1, 100} {
		i := i
		add(fmt.Sprintf("Get(%d)", i), func(s *types.Slice[int], m *[]int) (string, string, string) {
			v, err := s.Get(i)
			if i < 0 || i >= len(*m) {
				return errStr(err), "error", ""
			}
			return fmt.Sprint(v, errStr(err)), fmt.Sprint((*m)[i], "ok"), ""
		})
		add(fmt.Sprintf("Set(%d,9)", i), func(s *types.Slice[int], m *[]int) (string, string, string) {
			err := s.Set(i, 9)
			if i < 0 || i >= len(*m) {
				return errStr(err), "error", ""
			}
			(*m)[i] = 9
			return errStr(err), "ok", ""
		})
	}
	add("Get(len)", func(s *types.Slice[int], m *[]int) (string, string, string) {
		_, err := s.Get(len(*m))
		return errStr(err), "error", ""
	})
	for _, r := range [][2]int{{0, 0}, {0, 1}, {1, 0}, {-1, 1}, {0, 100}, {1, 2}} {
		r := r
		add(fmt.Sprintf("Slice(%d,%d)", r[0], r[1]), func(s *types.Slice[int], m *[]int) (string, string, string) {
			v, err := s.Slice(r[0], r[1])
			if r[0] < 0 || r[1] > len(*m) || r[0] > r[1] {
				return errStr(err), "error", ""
			}
			if err == nil {
				for k := range v {
					v[k] = 777 // the result must be a copy
				}
				if fmt.Sprint(s.All()) != fmt.Sprint(*m) {
					return "", "", "result of Slice() shares storage with the container"
				}
				return "ok", "ok", ""
			}
			return errStr(err), "ok", ""
		})
	}
	add("Slice(0,len)", func(s *types.Slice[int], m *[]int) (string, string, string) {
		v, err := s.Slice(0, len(*m))
		return fmt.Sprint(v, errStr(err)), fmt.Sprint(append([]int{}, *m...), "ok"), ""
	})
	even := func(v int) bool { return v%2 == 0 }
	add("Filter(even)", func(s *types.Slice[int], m *[]int) (string, string, string) {
		var w []int
		for _, v := range *m {
			if even(v) {
				w = append(w, v)
			}
		}
		return fmt.Sprint(s.Filter(even)), fmt.Sprint(w), ""
	})
	for _, start := range []int{-1, 0, 1, 100} {
		for _, del := range []int{-1, 0, 1, 100, math.MaxInt} {
			for _, ins := range [][]int{{}, {7}, {8, 9}} {
				start, del, ins := start, del, ins
				add(fmt.Sprintf("Splice(%d,%d,%v)", start, del, ins), func(s *types.Slice[int], m *[]int) (string, string, string) {
					arg, backing := ownedArg(ins...)
					rem, err := s.Splice(start, del, arg...)
					retainResult(rem, "Splice")
					if del < 0 {
						// an invalid count: an error (container unchanged) or treated as zero; never a panic
						if err != nil {
							return "error", "error", ""
						}
						w, ok := mSplice(m, start, 0, ins)
						if !ok {
							return "ok", "error", ""
						}
						return fmt.Sprint(rem), fmt.Sprint(w), aliasCheck(s, arg, backing, *m)
					}
					w, ok := mSplice(m, start, del, ins)
					if !ok {
						return errStr(err), "error", ""
					}
					return fmt.Sprint(rem, errStr(err)), fmt.Sprint(w, "ok"), aliasCheck(s, arg, backing, *m)
				})
			}
		}
	}
	add("Splice(len,0,[7])", func(s *types.Slice[int], m *[]int) (string, string, string) {
		arg, backing := ownedArg(7)
		rem, err := s.Splice(len(*m), 0, arg...)
		w, _ := mSplice(m, len(*m), 0, []int{7})
		return fmt.Sprint(rem, errStr(err)), fmt.Sprint(w, "ok"), aliasCheck(s, arg, backing, *m)
	})
	add("Remove(even)", func(s *types.Slice[int], m *[]int) (string, string, string) {
		s.Remove(even)
		for i, v := range *m {
			if even(v) {
				*m = append(append([]int{}, (*m)[:i]...), (*m)[i+1:]...)
				break
			}
		}
		return "", "", ""
	})
	add("RemoveAll(even)", func(s *types.Slice[int], m *[]int) (string, string, string) {
		s.RemoveAll(even)
		var w []int
		for _, v := range *m {
			if !even(v) {
				w = append(w, v)
			}
		}
		*m = w
		return "", "", ""
	})
	for _, rev := range []bool{false, true} {
		rev := rev
		add(fmt.Sprintf("Range(rev=%v,stop@2nd)", rev), func(s *types.Slice[int], m *[]int) (string, string, string) {
			var got, want []string
			n := 0
			s.Range(func(v, i int) bool { got = append(got, fmt.Sprint(i, ":", v)); n++; return n < 2 }, rev)
			idx := make([]int, 0, len(*m))
			for i := range *m {
				idx = append(idx, i)
			}
			if rev {
				sort.Sort(sort.Reverse(sort.IntSlice(idx)))
			}
			for k, i := range idx {
				if k >= 2 {
					break
				}
				want = append(want, fmt.Sprint(i, ":", (*m)[i]))
			}
			return fmt.Sprint(got), fmt.Sprint(want), ""
		})
		for _, del := range []int{1, -1, 0} {
			for _, ins := range [][]int{{}, {7, 7}} {
				del, ins := del, ins
				add(fmt.Sprintf("RangeAndSplice(rev=%v,first-even,del=%d,ins=%v)", rev, del, ins), func(s *types.Slice[int], m *[]int) (string, string, string) {
					arg, backing := ownedArg(ins...)
					rem, err := s.RangeAndSplice(func(v, i int) (bool, int, int, []int) { return even(v), i, del, arg }, rev)
					retainResult(rem, "RangeAndSplice")
					at := -1
					if rev {
						for i := len(*m) - 1; i >= 0; i-- {
							if even((*m)[i]) {
								at = i
								break
							}
						}
					} else {
						for i, v := range *m {
							if even(v) {
								at = i
								break
							}
						}
					}
					if at < 0 {
						return fmt.Sprint(rem, errStr(err)), fmt.Sprint([]int(nil), "ok"), ""
					}
					if del < 0 {
						if err != nil {
							return "error", "error", ""
						}
						w, _ := mSplice(m, at, 0, ins)
						return fmt.Sprint(rem), fmt.Sprint(w), aliasCheck(s, arg, backing, *m)
					}
					w, _ := mSplice(m, at, del, ins)
					return fmt.Sprint(rem, errStr(err)), fmt.Sprint(w, "ok"), aliasCheck(s, arg, backing, *m)
				})
			}
		}
	}
	add("FindIndex(even)", func(s *types.Slice[int], m *[]int) (string, string, string) {
		w := -1
		for i, v := range *m {
			if even(v) {
				w = i
				break
			}
		}
		return fmt.Sprint(s.FindIndex(even)), fmt.Sprint(w), ""
	})
	add("All", func(s *types.Slice[int], m *[]int) (string, string, string) {
		a := s.All()
		r := fmt.Sprint(a)
		for i := range a {
			a[i] = 555
		}
		if fmt.Sprint(s.All()) != fmt.Sprint(append([]int{}, *m...)) {
			return "", "", "result of All() shares storage with the container"
		}
		return r, fmt.Sprint(append([]int{}, *m...)), ""
	})
	add("Clear", func(s *types.Slice[int], m *[]int) (string, string, string) {
		s.Clear()
		*m = nil
		return "", "", ""
	})
	add("AllAndClear", func(s *types.Slice[int], m *[]int) (string, string, string) {
		a := s.AllAndClear()
		w := append([]int{}, *m...)
		*m = nil
		retainResult(a, "AllAndClear")
		return fmt.Sprint(a), fmt.Sprint(w), ""
	})
	add("Len", func(s *types.Slice[int], m *[]int) (string, string, string) {
		return fmt.Sprint(s.Len()), fmt.Sprint(len(*m)), ""
	})
	add("DoWrite(append 4)", func(s *types.Slice[int], m *[]int) (string, string, string) {
		s.DoWrite(func(e []int) []int { return append(e, 4) })
		*m = append(*m, 4)
		return "", "", ""
	})
	add("Replace([5,6])", func(s *types.Slice[int], m *[]int) (string, string, string) {
		s.Replace([]int{5, 6})
		*m = []int{5, 6}
		return "", "", ""
	})
	return ops
}

type bfsNode struct {
	path []int
}

// Slices the container has handed out (All, AllAndClear, removed elements of a Splice): they belong
// to the caller from then on and may not change when the container is used further.
type retainedSlice struct {
	got  []int
	snap []int
	from string
}

var sliceRetained []retainedSlice

func retainResult(a []int, from string) {
	sliceRetained = append(sliceRetained, retainedSlice{a, append([]int{}, a...), from})
}

func checkRetained() string {
	for _, r := range sliceRetained {
		if fmt.Sprint(r.got) != fmt.Sprint(r.snap) {
			return fmt.Sprintf("the slice returned earlier by %s changed from %v to %v when the container was used further", r.from, r.snap, r.got)
		}
	}
	return ""
}

func sliceState(s *types.Slice[int]) string {
	var c int
	var content string
	s.DoRead(func(e []int) { c = cap(e) - len(e); content = fmt.Sprint(e) })
	if c > 3 {
		c = 3
	}
	return fmt.Sprintf("%s spare=%d", content, c)
}

func init() {
	register("C20", "seq/slice", false, func(c *Ctx) {
		ops := sliceOps()
		depth := Pick(c, 3, 4)
		maxLen := 6
		build := func(path []int) (*types.Slice[int], []int) {
			sliceRetained = nil
			s := types.NewSlice[int]()
			var m []int
			for _, oi := range path {
				ops[oi].run(s, &m)
			}
			return s, m
		}
		seen := map[string]bool{sliceState(types.NewSlice[int]()): true}
		frontier := []bfsNode{{}}
		var trans int64
		for d := 0; d < depth; d++ {
			var next []bfsNode
			for _, nd := range frontier {
				for oi, op := range ops {
					names := make([]string, 0, len(nd.path)+1)
					for _, pi := range nd.path {
						names = append(names, ops[pi].name)
					}
					names = append(names, op.name)
					id := "slice: " + strings.Join(names, " ; ")
					trans++
					var key string
					var grew bool
					c.Case(id, func() []string {
						s, m := build(nd.path)
						before := append([]int{}, m...)
						got, want, alias := op.run(s, &m)
						var fails []string
						cls := op.name
						if i := strings.IndexByte(cls, '('); i > 0 {
							cls = cls[:i]
						}
						if i := strings.IndexByte(cls, '['); i > 0 {
							cls = cls[:i]
						}
						if alias == "" {
							alias = checkRetained()
						}
						if alias != "" {
							fails = append(fails, fmt.Sprintf("slice-aliasing[%s]: %s (on %v: %s)", cls, alias, before, id))
							return fails
						}
						if got != want {
							fails = append(fails, fmt.Sprintf("slice-result[%s]: returned %s, reference %s (on %v: %s)", cls, got, want, before, id))
						}
						if now := s.All(); fmt.Sprint(now) != fmt.Sprint(append([]int{}, m...)) {
							fails = append(fails, fmt.Sprintf("slice-contents[%s]: contents %v, reference %v (on %v: %s)", cls, now, m, before, id))
						}
						// slices handed out earlier are part of the state: what happens to them is observed later
						// (with the operation that handed them out: whether they share storage depends on it)
						var live []string
						for _, r := range sliceRetained {
							if len(r.got) > 0 && len(live) < 2 {
								live = append(live, r.from)
							}
						}
						key = fmt.Sprintf("%s handed-out=%v", sliceState(s), live)
						grew = len(m) > maxLen
						return fails
					})
					if key != "" && !grew && !seen[key] {
						seen[key] = true
						next = append(next, bfsNode{append(append([]int{}, nd.path...), oi)})
					}
				}
			}
			frontier = next
		}
		c.Res.States += int64(len(seen))
		c.Res.Transitions += trans
		c.Res.Distinct = int64(len(seen))
		c.Sample("slice: Push[2 3] ; Pop ; Splice(1,0,[7])")
		c.Note("BFS depth %d over %d Slice operations (all methods; caller-owned arguments with spare capacity; negative / oversized indices and counts), state = contents + spare capacity of the internal array (both observable through DoRead; merged states have equal futures), %d distinct states", depth, len(ops), len(seen))
	})
	registerSetMapSeq()
	registerEmitterSeq()
}

// ---------- Set and Map ----------

func registerSetMapSeq() {
	register("C20", "seq/set", false, func(c *Ctx) {
		type op struct {
			name string
			run  func(s *types.Set[int], m map[int]bool) (string, string)
		}
		keysOf := func(m map[int]bool) []int {
			var k []int
			for v := range m {
				k = append(k, v)
			}
			sort.Ints(k)
			return k
		}
		var ops []op
		for _, ks := range [][]int{{}, {1}, {1, 2}, {3}} {
			ks := ks
			ops = append(ops, op{fmt.Sprintf("Add%v", ks), func(s *types.Set[int], m map[int]bool) (string, string) {
				r := s.Add(ks...)
				for _, k := range ks {
					m[k] = true
				}
				return fmt.Sprint(r), fmt.Sprint(len(ks) > 0)
			}}, op{fmt.Sprintf("Delete%v", ks), func(s *types.Set[int], m map[int]bool) (string, string) {
				r := s.Delete(ks...)
				for _, k := range ks {
					delete(m, k)
				}
				return fmt.Sprint(r), fmt.Sprint(len(ks) > 0)
			}})
		}
		for _, k := range []int{1, 3} {
			k := k
			ops = append(ops, op{fmt.Sprintf("Has(%d)", k), func(s *types.Set[int], m map[int]bool) (string, string) {
				return fmt.Sprint(s.Has(k)), fmt.Sprint(m[k])
			}})
		}
		ops = append(ops, op{"Clear", func(s *types.Set[int], m map[int]bool) (string, string) {
			s.Clear()
			for k := range m {
				delete(m, k)
			}
			return "", ""
		}}, op{"Len", func(s *types.Set[int], m map[int]bool) (string, string) {
			return fmt.Sprint(s.Len()), fmt.Sprint(len(m))
		}}, op{"Keys", func(s *types.Set[int], m map[int]bool) (string, string) {
			k := s.Keys()
			sort.Ints(k)
			return fmt.Sprint(k), fmt.Sprint(keysOf(m))
		}}, op{"All(mutate)", func(s *types.Set[int], m map[int]bool) (string, string) {
			a := s.All()
			a[42] = types.NULL
			delete(a, 1)
			k := s.Keys()
			sort.Ints(k)
			return fmt.Sprint(k), fmt.Sprint(keysOf(m))
		}}, op{"JSON-roundtrip", func(s *types.Set[int], m map[int]bool) (string, string) {
			b, err := s.MarshalJSON()
			t := types.NewSet[int](99)
			if err == nil {
				err = t.UnmarshalJSON(b)
			}
			k := t.Keys()
			sort.Ints(k)
			return fmt.Sprint(k, err), fmt.Sprint(keysOf(m), nil)
		}})
		depth := Pick(c, 4, 5)
		seen := map[string]bool{"[]": true}
		frontier := [][]int{{}}
		var trans int64
		for d := 0; d < depth; d++ {
			var next [][]int
			for _, path := range frontier {
				for oi, o := range ops {
					trans++
					var key string
					names := ""
					for _, pi := range path {
						names += ops[pi].name + " ; "
					}
					id := "set: " + names + o.name
					c.Case(id, func() []string {
						s := types.NewSet[int]()
						m := map[int]bool{}
						for _, pi := range path {
							ops[pi].run(s, m)
						}
						got, want := o.run(s, m)
						var fails []string
						if got != want {
							fails = append(fails, fmt.Sprintf("set-result[%s]: returned %s, reference %s (%s)", strings.SplitN(o.name, "[", 2)[0], got, want, id))
						}
						k := s.Keys()
						sort.Ints(k)
						if fmt.Sprint(k) != fmt.Sprint(keysOf(m)) || s.Len() != len(m) {
							fails = append(fails, fmt.Sprintf("set-contents[%s]: %v (Len %d), reference %v (%s)", strings.SplitN(o.name, "[", 2)[0], k, s.Len(), keysOf(m), id))
						}
						key = fmt.Sprint(keysOf(m))
						return fails
					})
					if key != "" && !seen[key] {
						seen[key] = true
						next = append(next, append(append([]int{}, path...), oi))
					}
				}
			}
			frontier = next
		}
		c.Res.States += int64(len(seen))
		c.Res.Transitions += trans
		c.Res.Distinct = int64(len(seen))
		c.Sample("set: Add[1 2] ; Delete[1] ; All(mutate)")
		c.Note("BFS depth %d over %d Set operations, state = key set", depth, len(ops))
	})
	type op struct {
		name string
		run  func(s *types.Map[int, int], m map[int]int) (string, string)
	}
	// first < 0: the full alphabet; first >= 0: the promotion alphabet, sequences starting with that operation
	mapUnit := func(c *Ctx, first int) {
		var ops []op
		for _, k := range []int{1, 2} {
			k := k
			for _, v := range []int{10, 20} {
				v := v
				ops = append(ops,
					op{fmt.Sprintf("Store(%d,%d)", k, v), func(s *types.Map[int, int], m map[int]int) (string, string) {
						s.Store(k, v)
						m[k] = v
						return "", ""
					}},
					op{fmt.Sprintf("LoadOrStore(%d,%d)", k, v), func(s *types.Map[int, int], m map[int]int) (string, string) {
						a, l := s.LoadOrStore(k, v)
						w, ok := m[k]
						if !ok {
							m[k] = v
							w = v
						}
						return fmt.Sprint(a, l), fmt.Sprint(w, ok)
					}},
					op{fmt.Sprintf("Swap(%d,%d)", k, v), func(s *types.Map[int, int], m map[int]int) (string, string) {
						p, l := s.Swap(k, v)
						w, ok := m[k]
						m[k] = v
						return fmt.Sprint(p, l), fmt.Sprint(w, ok)
					}},
					op{fmt.Sprintf("CompareAndSwap(%d,10,%d)", k, v), func(s *types.Map[int, int], m map[int]int) (string, string) {
						r := s.CompareAndSwap(k, 10, v)
						w, ok := m[k]
						sw := ok && w == 10
						if sw {
							m[k] = v
						}
						return fmt.Sprint(r), fmt.Sprint(sw)
					}},
				)
			}
			ops = append(ops,
				op{fmt.Sprintf("Load(%d)", k), func(s *types.Map[int, int], m map[int]int) (string, string) {
					v, ok := s.Load(k)
					w, wok := m[k]
					return fmt.Sprint(v, ok), fmt.Sprint(w, wok)
				}},
				op{fmt.Sprintf("LoadAndDelete(%d)", k), func(s *types.Map[int, int], m map[int]int) (string, string) {
					v, ok := s.LoadAndDelete(k)
					w, wok := m[k]
					delete(m, k)
					return fmt.Sprint(v, ok), fmt.Sprint(w, wok)
				}},
				op{fmt.Sprintf("Delete(%d)", k), func(s *types.Map[int, int], m map[int]int) (string, string) {
					s.Delete(k)
					delete(m, k)
					return "", ""
				}},
				op{fmt.Sprintf("CompareAndDelete(%d,20)", k), func(s *types.Map[int, int], m map[int]int) (string, string) {
					r := s.CompareAndDelete(k, 20)
					w, ok := m[k]
					d := ok && w == 20
					if d {
						delete(m, k)
					}
					return fmt.Sprint(r), fmt.Sprint(d)
				}},
			)
		}
		render := func(m map[int]int) string {
			var ks []int
			for k := range m {
				ks = append(ks, k)
			}
			sort.Ints(ks)
			var b strings.Builder
			for _, k := range ks {
				fmt.Fprintf(&b, "%d=%d ", k, m[k])
			}
			return b.String()
		}
		snapshot := func(s *types.Map[int, int]) map[int]int {
			out := map[int]int{}
			s.Range(func(k, v int) bool { out[k] = v; return true })
			return out
		}
		ops = append(ops,
			op{"Clear", func(s *types.Map[int, int], m map[int]int) (string, string) {
				s.Clear()
				for k := range m {
					delete(m, k)
				}
				return "", ""
			}},
			op{"Len", func(s *types.Map[int, int], m map[int]int) (string, string) {
				return fmt.Sprint(s.Len()), fmt.Sprint(len(m))
			}},
			op{"Keys/Values", func(s *types.Map[int, int], m map[int]int) (string, string) {
				k, v := s.Keys(), s.Values()
				sort.Ints(k)
				sort.Ints(v)
				var wk, wv []int
				for a, b := range m {
					wk = append(wk, a)
					wv = append(wv, b)
				}
				sort.Ints(wk)
				sort.Ints(wv)
				return fmt.Sprint(k, v), fmt.Sprint(wk, wv)
			}},
			op{"Range(nested Store)", func(s *types.Map[int, int], m map[int]int) (string, string) {
				s.Range(func(k, v int) bool { s.Store(k, v); return true })
				return "", ""
			}},
		)
		// The Map's internal read/dirty split (and its miss counter) is not observable and decides
		// which code path the next operation takes, so states are NOT merged on contents: every
		// operation sequence up to the depth is run on a fresh Map (an earlier version merged
		// states with equal contents and so never reached a promoted map with a later store).
		runPath := func(set []op, path []int) (fails []string) {
			id := func() string {
				names := "map: "
				for i, pi := range path {
					if i > 0 {
						names += " ; "
					}
					names += set[pi].name
				}
				return names
			}
			defer func() {
				if r := recover(); r != nil {
					fails = append(fails, fmt.Sprintf("panic[map %s]: in case %s", strings.ReplaceAll(fmt.Sprint(r), ": ", " - "), id()))
				}
			}()
			s := &types.Map[int, int]{}
			m := map[int]int{}
			var got, want string
			for _, pi := range path {
				got, want = set[pi].run(s, m)
			}
			o := set[path[len(path)-1]]
			cls := strings.SplitN(o.name, "(", 2)[0]
			if got != want {
				fails = append(fails, fmt.Sprintf("map-result[%s]: returned %s, reference %s (%s)", cls, got, want, id()))
			}
			if n := s.Len(); n != len(m) {
				fails = append(fails, fmt.Sprintf("map-len[%s]: Len()=%d, reference has %d entries (%s)", cls, n, len(m), id()))
			}
			if now := render(snapshot(s)); now != render(m) || s.Len() != len(m) {
				fails = append(fails, fmt.Sprintf("map-contents[%s]: {%s} Len=%d, reference {%s} (%s)", cls, now, s.Len(), render(m), id()))
			}
			return fails
		}
		var trans int64
		enumerate := func(label string, set []op, depth int, first int) {
			if c.Replay != nil {
				// "map: a ; b ; c" names the path
				if !strings.HasPrefix(c.Replay.Scenario, "map: ") {
					return
				}
				var path []int
				for _, name := range strings.Split(strings.TrimPrefix(c.Replay.Scenario, "map: "), " ; ") {
					found := -1
					for i, o := range set {
						if o.name == name {
							found = i
						}
					}
					if found < 0 {
						return // a path of the other alphabet
					}
					path = append(path, found)
				}
				c.Case(c.Replay.Scenario, func() []string { return runPath(set, path) })
				return
			}
			path := make([]int, 0, depth)
			var rec func()
			rec = func() {
				if len(path) > 0 {
					trans++
					c.Res.Execs++
					if fails := runPath(set, path); len(fails) > 0 {
						c.Res.Execs--
						id := strings.SplitN(fails[0], "(map: ", 2)
						sc := "map"
						if len(id) == 2 {
							sc = "map: " + strings.TrimSuffix(id[1], ")")
						}
						c.Case(sc, func() []string { return fails })
					}
				}
				if len(path) == depth {
					return
				}
				for oi := range set {
					if len(path) == 0 && first >= 0 && oi != first {
						continue
					}
					path = append(path, oi)
					rec()
					path = path[:len(path)-1]
				}
			}
			rec()
			c.Note("%s: every operation sequence of length 1..%d over %d Map operations, no state merging", label, depth, len(set))
		}
		if first < 0 {
			enumerate("full alphabet (2 keys x 2 values)", ops, Pick(c, 4, 5), -1)
			c.Res.States += trans
			c.Res.Transitions += trans
			c.Res.Distinct = trans
			c.Sample("map: Store(1,10) ; LoadOrStore(1,20) ; CompareAndDelete(1,20)")
			return
		}
		// deeper, over a smaller alphabet chosen around the promotion logic: a third key for misses
		// (a miss count reaching the size of the dirty map promotes it), stores after a promotion,
		// deletes of promoted and of dirty-only keys
		var small []op
		pickOp := func(name string) {
			for _, o := range ops {
				if o.name == name {
					small = append(small, o)
					return
				}
			}
			panic("no such map op " + name)
		}
		for _, n := range []string{"Store(1,10)", "Store(2,10)", "Load(1)", "Load(2)", "Delete(1)", "Delete(2)", "LoadOrStore(2,20)", "LoadAndDelete(1)", "CompareAndDelete(2,20)", "Keys/Values", "Clear"} {
			pickOp(n)
		}
		small = append(small, op{"Load(3)", func(s *types.Map[int, int], m map[int]int) (string, string) {
			v, ok := s.Load(3)
			w, wok := m[3]
			return fmt.Sprint(v, ok), fmt.Sprint(w, wok)
		}}, op{"Store(3,10)", func(s *types.Map[int, int], m map[int]int) (string, string) {
			s.Store(3, 10)
			m[3] = 10
			return "", ""
		}})
		if first >= len(small) {
			panic("map unit: no such first operation")
		}
		enumerate("promotion alphabet (3 keys), sequences starting with "+small[first].name, small, Pick(c, 6, 7), first)
		c.Res.States += trans
		c.Res.Transitions += trans
		c.Res.Distinct = trans
		c.Sample("map: Store(1,10) ; Load(3) ; Store(2,10) ; Delete(1)")
	}
	register("C20", "seq/map", false, func(c *Ctx) { mapUnit(c, -1) })
	for first := 0; first < 13; first++ {
		first := first
		register("C20", fmt.Sprintf("seq/map-deep/%02d", first), false, func(c *Ctx) { mapUnit(c, first) })
	}
}

// ---------- event emitter ----------

var emLog []string

func emL1(...any) { emLog = append(emLog, "L1") }
func emL2(...any) { emLog = append(emLog, "L2") }
func emL3(...any) { emLog = append(emLog, "L3") }

type emEntry struct {
	fn    string
	once  bool
	fired bool
}

type emModel struct {
	ev map[string][]*emEntry
}

func (m *emModel) remove(evt, fn string) bool {
	l := m.ev[evt]
	for i, e := range l {
		if e.fn == fn {
			m.ev[evt] = append(append([]*emEntry{}, l[:i]...), l[i+1:]...)
			return true
		}
	}
	return false
}

func (m *emModel) removeEntry(evt string, x *emEntry) {
	l := m.ev[evt]
	for i, e := range l {
		if e == x {
			m.ev[evt] = append(append([]*emEntry{}, l[:i]...), l[i+1:]...)
			return
		}
	}
}

func registerEmitterSeq() {
	for _, impl := range []string{"types", "events"} {
		impl := impl
		register("C20", "seq/emitter-"+impl, false, func(c *Ctx) {
			type world struct {
				e   types.EventEmitter
				m   *emModel
				log *[]string // model log
				fns map[string]types.Listener
			}
			newWorld := func() *world {
				w := &world{m: &emModel{ev: map[string][]*emEntry{}}, log: new([]string)}
				if impl == "types" {
					w.e = types.NewEventEmitter()
				} else {
					w.e = events.New()
				}
				w.fns = map[string]types.Listener{"L1": emL1, "L2": emL2, "L3": emL3}
				// listeners that change the emitter while an emit is in progress
				w.fns["ADD"] = func(...any) { emLog = append(emLog, "ADD"); w.e.On("a", emL3) }
				w.fns["REM2"] = func(...any) { emLog = append(emLog, "REM2"); w.e.RemoveListener("a", emL2) }
				w.fns["EMITB"] = func(...any) { emLog = append(emLog, "EMITB"); w.e.Emit("b") }
				w.fns["CLR"] = func(...any) { emLog = append(emLog, "CLR"); w.e.RemoveAllListeners("a") }
				return w
			}
			var mEmit func(w *world, evt string)
			mCall := func(w *world, fn string) {
				*w.log = append(*w.log, fn)
				switch fn {
				case "ADD":
					w.m.ev["a"] = append(w.m.ev["a"], &emEntry{fn: "L3"})
				case "REM2":
					w.m.remove("a", "L2")
				case "EMITB":
					mEmit(w, "b")
				case "CLR":
					delete(w.m.ev, "a")
				}
			}
			mEmit = func(w *world, evt string) {
				snap := append([]*emEntry{}, w.m.ev[evt]...)
				for _, e := range snap {
					if e.fn == "nil" {
						continue
					}
					if e.once {
						if e.fired {
							continue
						}
						e.fired = true
						mCall(w, e.fn)
						w.m.removeEntry(evt, e)
					} else {
						mCall(w, e.fn)
					}
				}
			}
			type op struct {
				name string
				run  func(w *world) (string, string)
			}
			var ops []op
			for _, evt := range []string{"a", "b"} {
				evt := evt
				fnNames := []string{"L1", "L2"}
				if evt == "a" {
					fnNames = append(fnNames, "ADD", "REM2", "EMITB", "CLR")
				}
				for _, fn := range fnNames {
					fn := fn
					ops = append(ops, op{fmt.Sprintf("On(%s,%s)", evt, fn), func(w *world) (string, string) {
						w.e.On(types.EventName(evt), w.fns[fn])
						w.m.ev[evt] = append(w.m.ev[evt], &emEntry{fn: fn})
						return "", ""
					}})
					if fn == "L1" || fn == "L2" || fn == "REM2" || fn == "CLR" {
						ops = append(ops, op{fmt.Sprintf("Once(%s,%s)", evt, fn), func(w *world) (string, string) {
							w.e.Once(types.EventName(evt), w.fns[fn])
							w.m.ev[evt] = append(w.m.ev[evt], &emEntry{fn: fn, once: true})
							return "", ""
						}})
					}
				}
				for _, fn := range []string{"L1", "L2"} {
					fn := fn
					ops = append(ops, op{fmt.Sprintf("RemoveListener(%s,%s)", evt, fn), func(w *world) (string, string) {
						r := w.e.RemoveListener(types.EventName(evt), w.fns[fn])
						return fmt.Sprint(r), fmt.Sprint(w.m.remove(evt, fn))
					}})
				}
				ops = append(ops,
					op{fmt.Sprintf("On(%s,nil)", evt), func(w *world) (string, string) {
						w.e.On(types.EventName(evt), nil)
						w.m.ev[evt] = append(w.m.ev[evt], &emEntry{fn: "nil"}) // inert: never called, never matched
						return "", ""
					}},
					op{fmt.Sprintf("Once(%s,nil)", evt), func(w *world) (string, string) {
						w.e.Once(types.EventName(evt), nil)
						w.m.ev[evt] = append(w.m.ev[evt], &emEntry{fn: "nil", once: true})
						return "", ""
					}},
					op{fmt.Sprintf("RemoveListener(%s,nil)", evt), func(w *world) (string, string) {
						return fmt.Sprint(w.e.RemoveListener(types.EventName(evt), nil)), "false"
					}},
					op{fmt.Sprintf("Emit(%s)", evt), func(w *world) (string, string) {
						emLog = nil
						*w.log = nil
						w.e.Emit(types.EventName(evt), 1)
						mEmit(w, evt)
						return fmt.Sprint(emLog), fmt.Sprint(*w.log)
					}},
					op{fmt.Sprintf("RemoveAllListeners(%s)", evt), func(w *world) (string, string) {
						r := w.e.RemoveAllListeners(types.EventName(evt))
						_, had := w.m.ev[evt]
						delete(w.m.ev, evt)
						_ = r
						_ = had
						return "", ""
					}},
				)
			}
			ops = append(ops, op{"On(a,L1,L2)", func(w *world) (string, string) {
				w.e.On("a", emL1, emL2)
				w.m.ev["a"] = append(w.m.ev["a"], &emEntry{fn: "L1"}, &emEntry{fn: "L2"})
				return "", ""
			}}, op{"Clear", func(w *world) (string, string) {
				w.e.Clear()
				w.m.ev = map[string][]*emEntry{}
				return "", ""
			}}, op{"Listeners(a)", func(w *world) (string, string) {
				// must not panic; its length counts callable registrations
				n := 0
				for _, l := range w.e.Listeners("a") {
					if l != nil {
						n++
					}
				}
				want := 0
				for _, e := range w.m.ev["a"] {
					if e.fn != "nil" {
						want++
					}
				}
				return fmt.Sprint(n), fmt.Sprint(want)
			}})
			stateKey := func(w *world) string {
				var b strings.Builder
				for _, evt := range []string{"a", "b"} {
					b.WriteString(evt + ":")
					for _, e := range w.m.ev[evt] {
						fmt.Fprintf(&b, "%s/%v/%v,", e.fn, e.once, e.fired)
					}
					b.WriteString(";")
				}
				return b.String()
			}
			depth := Pick(c, 4, 5)
			seen := map[string]bool{"a:;b:;": true}
			frontier := [][]int{{}}
			var trans int64
			for d := 0; d < depth; d++ {
				var next [][]int
				for _, path := range frontier {
					for oi, o := range ops {
						trans++
						names := ""
						for _, pi := range path {
							names += ops[pi].name + " ; "
						}
						id := "emitter(" + impl + "): " + names + o.name
						var key string
						tooBig := false
						c.Case(id, func() []string {
							w := newWorld()
							for _, pi := range path {
								ops[pi].run(w)
							}
							got, want := o.run(w)
							cls := strings.SplitN(o.name, "(", 2)[0]
							var fails []string
							if got != want {
								fails = append(fails, fmt.Sprintf("emitter-result[%s]: observed %s, reference %s (%s)", cls, got, want, id))
							}
							// probe the future: on a second replica of this state, emit both events and compare with
							// the model (the state key comes from the model, so merged states must behave alike)
							if len(fails) == 0 {
								p := newWorld()
								for _, pi := range path {
									ops[pi].run(p)
								}
								o.run(p)
								for _, evt := range []string{"a", "b", "a"} {
									emLog = nil
									*p.log = nil
									p.e.Emit(types.EventName(evt))
									mEmit(p, evt)
									if fmt.Sprint(emLog) != fmt.Sprint(*p.log) {
										fails = append(fails, fmt.Sprintf("emitter-result[Emit after %s]: a following Emit(%s) called %v, reference %v (%s)", cls, evt, emLog, *p.log, id))
										break
									}
								}
							}
							// registrations that can still be called, per event, must agree with the model
							for _, evt := range []string{"a", "b"} {
								live := 0
								for _, e := range w.m.ev[evt] {
									if !(e.once && e.fired) {
										live++
									}
								}
								if live > 4 {
									tooBig = true
								}
							}
							key = stateKey(w)
							return fails
						})
						if key != "" && !tooBig && !seen[key] {
							seen[key] = true
							next = append(next, append(append([]int{}, path...), oi))
						}
					}
				}
				frontier = next
			}
			c.Res.States += int64(len(seen))
			c.Res.Transitions += trans
			c.Res.Distinct = int64(len(seen))
			c.Sample("emitter: On(a,L1) ; Once(a,L1) ; Emit(a) ; Emit(a)")
			c.Note("BFS depth %d over %d emitter operations on 2 events (On/Once/RemoveListener with the same function several times, nil listeners, listeners that add/remove/clear/emit during an emit), state = ordered registrations with once/fired flags; the model calls every registration of the snapshot exactly once per emit, Once registrations at most once overall, RemoveListener removes exactly one (the first) registration of the function", depth, len(ops))
		})
	}
}
