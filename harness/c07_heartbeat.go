package harness

import (
	"fmt"
	"strings"
	"time"

	"github.com/zishang520/engine.io/v2/config"
	"github.com/zishang520/engine.io/v2/types"
	"verifrt/vsched"
)

// C07 — heartbeat on a virtual-time grid (unit 1s). The client answers the k-th
// ping after a scripted delay (or never), possibly sends unsolicited pongs;
// the reference timeline gives the instants of pings and of the close.

const hbUnit = time.Second

type hbScript struct {
	I, T    int    // interval, timeout in units
	delays  []int  // delay of the pong for ping k (-1 = never); beyond the list: never
	extra   []int  // instants of unsolicited pongs
	kind    string // polling | websocket
	v3      bool
	v3pings []int // v3: instants at which the client sends a ping
	sendAt  int   // an application Send at this instant (0 = none)
	msgAt   []int // the client submits an ordinary message at these instants (no heartbeat meaning)
	upgradeFirst bool // the (polling) session is upgraded to websocket by a conformant client at t=0, before the grid starts
	idleCandAt   int  // >0: an upgrade candidate connects at this instant and then stays idle (no probe, no upgrade)
	upgradeAt    int  // >0: a conformant client upgrades the (polling, revision 4) session at this instant, mid-interval, no ping outstanding
}

func (h hbScript) id() string {
	m := ""
	if len(h.msgAt) > 0 {
		m = fmt.Sprintf(" msg@%v", h.msgAt)
	}
	if h.upgradeFirst {
		m += " upgraded@0"
	}
	if h.upgradeAt > 0 {
		m += fmt.Sprintf(" upgraded@%d", h.upgradeAt)
	}
	if h.idleCandAt > 0 {
		m += fmt.Sprintf(" idle-candidate@%d", h.idleCandAt)
	}
	if h.v3 {
		return fmt.Sprintf("%s v3 I=%d T=%d pings@%v%s", h.kind, h.I, h.T, h.v3pings, m)
	}
	return fmt.Sprintf("%s v4 I=%d T=%d delays=%v extra=%v send@%d%s", h.kind, h.I, h.T, h.delays, h.extra, h.sendAt, m)
}

type hbOutcome struct {
	pings []int
	close int // -1: none within the horizon
}

func (o hbOutcome) String() string { return fmt.Sprintf("pings=%v close=%d", o.pings, o.close) }

// refV4 enumerates the outcomes the reference allows up to the horizon (ties in any order).
func refV4(h hbScript, horizon int) map[string]bool {
	out := map[string]bool{}
	type st struct {
		nextPing, deadline int // -1 none
		k                  int // pings sent
		pongs              map[int]int
		pings              []int
	}
	var rec func(s st, t int, done map[string]bool)
	rec = func(s st, t int, done map[string]bool) {
		if t > horizon {
			out[hbOutcome{s.pings, -1}.String()] = true
			return
		}
		// events possible at instant t
		type ev struct{ name string }
		var evs []string
		if s.nextPing == t && !done["ping"] {
			evs = append(evs, "ping")
		}
		if s.deadline == t && !done["deadline"] {
			evs = append(evs, "deadline")
		}
		if n := s.pongs[t]; n > 0 {
			evs = append(evs, "pong")
		}
		if len(evs) == 0 {
			rec(s, t+1, map[string]bool{})
			return
		}
		for _, e := range evs {
			ns := s
			ns.pongs = map[int]int{}
			for k, v := range s.pongs {
				ns.pongs[k] = v
			}
			ns.pings = append([]int(nil), s.pings...)
			nd := map[string]bool{}
			for k, v := range done {
				nd[k] = v
			}
			switch e {
			case "ping":
				ns.pings = append(ns.pings, t)
				ns.deadline = t + h.T
				ns.nextPing = -1
				nd["ping"] = true
				// the scripted answer to this ping
				if ns.k < len(h.delays) && h.delays[ns.k] >= 0 {
					ns.pongs[t+h.delays[ns.k]]++
				}
				ns.k++
			case "deadline":
				out[hbOutcome{ns.pings, t}.String()] = true
				continue
			case "pong":
				ns.pongs[t]--
				if s.nextPing == t && !done["ping"] {
					// a pong landing on the very instant a ping is due, taken first: the ping
					// may already be on its way (its timer has expired) and still go out at t,
					// the pong then does not count as its answer
					alt := ns
					alt.pongs = map[int]int{}
					for k, v := range ns.pongs {
						alt.pongs[k] = v
					}
					alt.pings = append([]int(nil), ns.pings...)
					alt.deadline = -1
					rec(alt, t, nd)
				}
				ns.deadline = -1
				ns.nextPing = t + h.I
				nd = map[string]bool{} // a refreshed ping due at t+I (I>0) is not at t
			}
			rec(ns, t, nd)
		}
	}
	p := map[int]int{}
	for _, e := range h.extra {
		p[e]++
	}
	rec(st{nextPing: h.I, deadline: -1, pongs: p}, 0, map[string]bool{})
	return out
}

func refV3(h hbScript, horizon int) map[string]bool {
	out := map[string]bool{}
	var rec func(deadline int, idx int, t int, pongs []int)
	rec = func(deadline, idx, t int, pongs []int) {
		if t > horizon {
			out[hbOutcome{pongs, -1}.String()] = true
			return
		}
		pingNow := idx < len(h.v3pings) && h.v3pings[idx] == t
		if deadline == t && pingNow {
			// tie: either order; the two also overlap (the ping is answered while the
			// expired deadline closes the session at the same instant)
			out[hbOutcome{pongs, t}.String()] = true
			out[hbOutcome{append(append([]int(nil), pongs...), t), t}.String()] = true
			rec(t+h.I+h.T, idx+1, t+1, append(append([]int(nil), pongs...), t))
			return
		}
		if deadline == t {
			out[hbOutcome{pongs, t}.String()] = true
			return
		}
		if pingNow {
			rec(t+h.I+h.T, idx+1, t+1, append(append([]int(nil), pongs...), t))
			return
		}
		rec(deadline, idx, t+1, pongs)
	}
	first := h.I + h.T
	if h.upgradeFirst {
		first = -1 // the upgrade cancels the pending deadline; the next client ping arms a new one
	}
	rec(first, 0, 0, nil)
	return out
}

func hbBody(h hbScript) vsched.Body {
	horizon := 12
	return func(x *vsched.Exec) {
		o := config.DefaultServerOptions()
		o.SetPingInterval(time.Duration(h.I) * hbUnit)
		o.SetPingTimeout(time.Duration(h.T) * hbUnit)
		o.SetAllowEIO3(true)
		o.SetTransports(types.NewSet("polling", "websocket"))
		w := NewWorld(x, o)
		kind := h.kind
		if h.v3 && kind == "polling" {
			kind = "polling3"
		}
		s := openSessionEIO(x, w, kind, h.v3)
		if s == nil {
			return
		}
		if h.upgradeFirst && s.pc != nil {
			// conformant upgrade at t=0 (no poll pending), default schedule
			x.Frozen = true
			eio := 4
			if h.v3 {
				eio = 3
			}
			cand := w.DialWS(eio, s.pc.Sid, false, false, "")
			x.Settle()
			if !cand.Ready() {
				x.Fail("setup: upgrade candidate refused (%s)", h.id())
				return
			}
			vsched.GoNamed("upgrader", func() { cand.SendPkt(Pkt{Type: '2', Data: []byte("probe")}) })
			x.Settle()
			vsched.GoNamed("upgrader", func() { cand.SendPkt(Pkt{Type: '5'}) })
			x.Settle()
			x.Frozen = false
			if !s.rec.Sock.Upgraded() {
				x.Fail("setup: upgrade did not complete (%s)", h.id())
				return
			}
			s.ws, s.pc = cand, nil
		}
		var wire []int // instants at which the client saw a ping (v4) / a pong (v3)
		now := func() int { return int(x.Now() / hbUnit) }
		// a conformant polling client has one data request outstanding at a time
		posting := false
		post := func(pk []Pkt) {
			vsched.WaitFor(0, "client-data-request-slot", func() bool { return !posting })
			if s.pc == nil {
				// the session has been upgraded meanwhile
				s.ws.SendPkt(pk[0])
				return
			}
			posting = true
			r := s.pc.Post(pk)
			r.Wait()
			posting = false
		}
		sendPong := func() {
			if s.pc != nil {
				post([]Pkt{{Type: '3'}})
			} else {
				s.ws.SendPkt(Pkt{Type: '3'})
			}
		}
		sendPing := func() {
			if s.pc != nil {
				post([]Pkt{{Type: '2'}})
			} else {
				s.ws.SendPkt(Pkt{Type: '2'})
			}
		}
		k := 0
		onPkt := func(p Pkt) {
			if !h.v3 && p.Type == '2' {
				wire = append(wire, now())
				if k < len(h.delays) && h.delays[k] >= 0 {
					at := x.Now() + time.Duration(h.delays[k])*hbUnit
					vsched.GoNamed("pong", func() { vsched.SleepUntil(at); sendPong() })
				}
				k++
			}
			if h.v3 && p.Type == '3' && string(p.Data) != "probe" {
				wire = append(wire, now())
			}
		}
		// reader: keeps a poll pending / reads frames, hands packets to onPkt
		paused, idle := false, false
		startWSReader := func(ws *WSClient) {
			vsched.GoNamed("reader", func() {
				seen := 0
				p := ws.pipe()
				for i := 0; i < 400; i++ {
					vsched.WaitFor(pipeObj(p), "reader", func() bool { return len(p.toCli) > p.cliRead || p.srvClosed })
					pk, _ := ws.Pkts()
					for _, q := range pk[seen:] {
						if q.Type == '3' && string(q.Data) == "probe" {
							continue
						}
						onPkt(q)
					}
					seen = len(pk)
					if p.srvClosed {
						return
					}
				}
			})
		}
		if h.idleCandAt > 0 && s.pc != nil {
			at := time.Duration(h.idleCandAt) * hbUnit
			sid := s.pc.Sid
			vsched.GoNamed("idle-candidate", func() {
				vsched.SleepUntil(at)
				c := dialCandidate(w, "websocket", sid)
				c.waitOpen()
			})
		}
		if h.upgradeAt > 0 && s.pc != nil {
			at := time.Duration(h.upgradeAt) * hbUnit
			pc := s.pc
			vsched.GoNamed("upgrader", func() {
				vsched.SleepUntil(at)
				c := dialCandidate(w, "websocket", pc.Sid)
				if !c.waitOpen() {
					x.Fail("setup: upgrade candidate refused (%s)", h.id())
					return
				}
				c.send(Pkt{Type: '2', Data: []byte("probe")})
				if !c.waitPong() {
					// (the probe can be lost before the server listens: the events-before-listeners finding)
					return
				}
				paused = true
				vsched.WaitFor(0, "polling-paused", func() bool { return idle })
				s.ws, s.pc = c.ws, nil
				c.send(Pkt{Type: '5'})
				startWSReader(c.ws)
			})
		}
		if s.pc != nil {
			vsched.GoNamed("reader", func() {
				defer func() { idle = true }()
				for i := 0; i < 100 && !paused; i++ {
					r := s.pc.Get()
					r.Wait()
					if r.Code != 200 {
						return
					}
					pk, err := s.pc.DecodeResp(r)
					if err != nil {
						return
					}
					for _, p := range pk {
						if p.Type == '1' {
							return
						}
						onPkt(p)
					}
				}
			})
		} else {
			vsched.GoNamed("reader", func() {
				seen := 0
				p := s.ws.pipe()
				for i := 0; i < 400; i++ {
					vsched.WaitFor(pipeObj(p), "reader", func() bool { return len(p.toCli) > p.cliRead || p.srvClosed })
					pk, _ := s.ws.Pkts()
					for _, q := range pk[seen:] {
						onPkt(q)
					}
					seen = len(pk)
					if p.srvClosed {
						return
					}
				}
			})
		}
		for _, e := range h.extra {
			at := time.Duration(e) * hbUnit
			vsched.GoNamed("extra-pong", func() { vsched.SleepUntil(at); sendPong() })
		}
		for _, e := range h.v3pings {
			at := time.Duration(e) * hbUnit
			vsched.GoNamed("v3-ping", func() { vsched.SleepUntil(at); sendPing() })
		}
		for _, e := range h.msgAt {
			at := time.Duration(e) * hbUnit
			vsched.GoNamed("client-msg", func() {
				vsched.SleepUntil(at)
				if s.pc != nil {
					post([]Pkt{Msg("m")})
				} else {
					s.ws.SendPkt(Msg("m"))
				}
			})
		}
		if h.sendAt > 0 {
			at := time.Duration(h.sendAt) * hbUnit
			vsched.GoNamed("app-send", func() {
				vsched.SleepUntil(at)
				s.rec.Sock.Send(types.NewStringBufferString("x"), nil, nil)
			})
		}
		x.Run(time.Duration(horizon)*hbUnit + hbUnit/2)
		got := hbOutcome{wire, -1}
		reason := ""
		for _, e := range s.rec.Events {
			if e.Name == "close" {
				got.close = int(e.At / hbUnit)
				reason = e.Arg
				if e.At%hbUnit != 0 {
					x.Fail("close-off-grid[%s]: close at %v", h.kind, e.At)
				}
			}
		}
		var want map[string]bool
		if h.v3 {
			want = refV3(h, horizon)
		} else {
			want = refV4(h, horizon)
		}
		fp := fmt.Sprintf("[%s %s]", h.kind, map[bool]string{true: "v3", false: "v4"}[h.v3])
		if !want[got.String()] {
			cls := "timeline"
			// classify: closed early / late / never / ping instants
			x.Fail("%s%s: observed %s (reason %q), reference allows %v (%s)", cls, fp, got, reason, sortedKeys(want), h.id())
		} else if got.close >= 0 && reason != "ping timeout" {
			x.Fail("close-reason%s: closed at the heartbeat deadline with %q (%s)", fp, reason, h.id())
		}
		// heartbeat events: one per accepted pong (v4) / ping (v3)
		x.Outcome = got.String()
	}
}

func pipeObj(p *Pipe) uintptr { return uintptrOf(p) }

func init() {
	gen := func(thorough bool) []hbScript {
		var out []hbScript
		cfgs := [][2]int{{2, 1}, {3, 2}, {2, 3}} // the last one: timeout longer than the interval
		for _, kind := range []string{"polling", "websocket"} {
			for _, c := range cfgs {
				I, T := c[0], c[1]
				ds := []int{}
				for d := 0; d <= T+1; d++ {
					ds = append(ds, d)
				}
				ds = append(ds, -1)
				cycles := 2
				if thorough {
					cycles = 3
				}
				var rec func(cur []int)
				rec = func(cur []int) {
					if len(cur) == cycles {
						out = append(out, hbScript{I: I, T: T, delays: append([]int(nil), cur...), kind: kind})
						return
					}
					for _, d := range ds {
						// a pong that is late or never ends the session: later delays are irrelevant
						if len(cur) > 0 && (cur[len(cur)-1] < 0 || cur[len(cur)-1] > T) {
							if d != -1 {
								continue
							}
						}
						rec(append(cur, d))
					}
				}
				rec(nil)
				// unsolicited / duplicated pongs at each grid instant of the first two cycles
				for e := 1; e <= I+T+1; e++ {
					out = append(out, hbScript{I: I, T: T, delays: []int{0, 0}, extra: []int{e}, kind: kind})
					out = append(out, hbScript{I: I, T: T, delays: []int{-1}, extra: []int{e}, kind: kind})
				}
				// concurrent application traffic at the ping instant and at the deadline
				out = append(out, hbScript{I: I, T: T, delays: []int{0, -1}, kind: kind, sendAt: I})
				out = append(out, hbScript{I: I, T: T, delays: []int{-1}, kind: kind, sendAt: I + T})
				// v3: client pings
				gaps := []int{1, I + T - 1, I + T, I + T + 1}
				for _, g1 := range gaps {
					for _, g2 := range gaps {
						out = append(out, hbScript{I: I, T: T, kind: kind, v3: true, v3pings: []int{g1, g1 + g2}})
					}
				}
				out = append(out, hbScript{I: I, T: T, kind: kind, v3: true})
				if kind == "polling" {
					// the heartbeat goes on after an upgrade
					out = append(out, hbScript{I: I, T: T, kind: kind, v3: true, v3pings: []int{1}, upgradeFirst: true})
					out = append(out, hbScript{I: I, T: T, kind: kind, v3: true, v3pings: []int{1, I + T}, upgradeFirst: true})
					out = append(out, hbScript{I: I, T: T, kind: kind, delays: []int{0, -1}, upgradeFirst: true})
					out = append(out, hbScript{I: I, T: T, kind: kind, delays: []int{-1}, upgradeFirst: true})
					// upgraded in the middle of an interval, no ping outstanding: the ping schedule is unchanged
					out = append(out, hbScript{I: I, T: T, kind: kind, delays: []int{0, -1}, upgradeAt: 1})
					out = append(out, hbScript{I: I, T: T, kind: kind, delays: []int{-1}, upgradeAt: 1})
					// an upgrade candidate that connects and then does nothing does not stop the heartbeat
					out = append(out, hbScript{I: I, T: T, kind: kind, delays: []int{-1}, idleCandAt: 1})
					out = append(out, hbScript{I: I, T: T, kind: kind, delays: []int{0, -1}, idleCandAt: 1})
				}
				// ordinary client traffic does not count as a heartbeat
				out = append(out, hbScript{I: I, T: T, kind: kind, v3: true, v3pings: []int{1}, msgAt: []int{2}})
				out = append(out, hbScript{I: I, T: T, kind: kind, v3: true, v3pings: []int{1}, msgAt: []int{I + T}})
				out = append(out, hbScript{I: I, T: T, kind: kind, v3: true, msgAt: []int{1, I + T - 1}})
				out = append(out, hbScript{I: I, T: T, delays: []int{-1}, kind: kind, msgAt: []int{I}})
				out = append(out, hbScript{I: I, T: T, delays: []int{0, -1}, kind: kind, msgAt: []int{I + 1, 2*I + 1}})
			}
		}
		return out
	}
	quick := map[string]bool{}
	for _, h := range gen(false) {
		quick[h.id()] = true
	}
	seen := map[string]bool{}
	for _, h := range gen(true) {
		if seen[h.id()] {
			continue
		}
		seen[h.id()] = true
		h := h
		name := strings.NewReplacer(" ", "_", "[", "", "]", "").Replace(h.id())
		register("C07", "grid/"+name, !quick[h.id()], func(c *Ctx) {
			// polling executions are several times longer (a request per packet): one bound lower
			bound, dev := Pick(c, 1, 2), Pick(c, 3, 5)
			if h.kind == "polling" {
				bound, dev = Pick(c, 0, 1), Pick(c, 2, 4)
			}
			c.ExploreDev(h.id(), bound, dev, hbBody(h))
			c.Sample(h.id())
			c.Res.Distinct = 1
			c.Note("client script on a 1s grid (pong delay per ping in {0..T+1, never} / unsolicited pong / application Send at the ping instant or deadline / v3 client pings), every interleaving of the co-instant threads with <=%d preemptions and <=%d context switches off the default schedule; compared with the reference timeline (ties in either order)", bound, dev)
		})
	}
	// wrong-direction heartbeats
	register("C07", "wrong-direction", false, func(c *Ctx) {
		n := 0
		for _, kind := range []string{"polling", "websocket"} {
			for _, v3 := range []bool{false, true} {
				kind, v3 := kind, v3
				n++
				id := fmt.Sprintf("%s v3=%v", kind, v3)
				c.ExploreDev(id, 1, 3, func(x *vsched.Exec) {
					w := NewWorld(x, sessOpts())
					k := kind
					if v3 && kind == "polling" {
						k = "polling3"
					}
					s := openSessionEIO(x, w, k, v3)
					if s == nil {
						return
					}
					// a second, unaffected session
					other := &PollClient{W: w, EIO: 4}
					x.Frozen = true
					ro := other.Get()
					x.Settle()
					x.Frozen = false
					_ = ro
					wrong := Pkt{Type: '2'} // v4 session receives a ping
					if v3 {
						wrong = Pkt{Type: '3'}
					}
					vsched.GoNamed("wrong-heartbeat", func() {
						if s.pc != nil {
							s.pc.Post([]Pkt{wrong})
						} else {
							s.ws.SendPkt(wrong)
						}
					})
					x.Run(x.Now() + 5*time.Second)
					cr := s.rec.CloseReasons()
					if len(cr) != 1 || cr[0] != "transport error" {
						x.Fail("wrong-direction[%s v3=%v]: heartbeat packet in the wrong direction: close events %v, expected one 'transport error'", kind, v3, cr)
					}
					if len(w.Socks) > 1 && w.Socks[1].Count("close") != 0 {
						x.Fail("wrong-direction-collateral[%s v3=%v]: the other session closed: %v", kind, v3, w.Socks[1].CloseReasons())
					}
					if s.rec.Count("heartbeat") != 0 {
						x.Fail("wrong-direction-heartbeat[%s v3=%v]: a heartbeat event was emitted", kind, v3)
					}
					x.Outcome = strings.Join(cr, ",")
				})
			}
		}
		c.Res.Distinct = int64(n)
	})
}

// a session that is closing gracefully with data still buffered and a client that never polls
// again is ended by the next heartbeat deadline, exactly
func init() {
	register("C07", "closing-silent", false, func(c *Ctx) {
		n := 0
		for _, cfg := range [][2]int{{2, 1}, {3, 2}, {2, 3}} {
			for _, eio := range []int{4, 3} {
				I, T, eio := cfg[0], cfg[1], eio
				n++
				id := fmt.Sprintf("closing-silent I=%d T=%d eio=%d", I, T, eio)
				c.ExploreDev(id, Pick(c, 1, 2), Pick(c, 3, 5), func(x *vsched.Exec) {
					o := config.DefaultServerOptions()
					o.SetPingInterval(time.Duration(I) * hbUnit)
					o.SetPingTimeout(time.Duration(T) * hbUnit)
					o.SetAllowEIO3(true)
					w := NewWorld(x, o)
					kind := "polling"
					if eio == 3 {
						kind = "polling3"
					}
					s := openSession(x, w, kind, false)
					if s == nil {
						return
					}
					vsched.GoNamed("app", func() {
						vsched.Sleep(hbUnit)
						s.rec.Sock.Send(types.NewStringBufferString("buffered"), nil, nil)
						s.rec.Sock.Close(false)
					})
					x.Run(12 * hbUnit)
					want := time.Duration(I+T) * hbUnit
					cr := s.rec.CloseReasons()
					if len(cr) != 1 {
						x.Fail("closing-never-ended[eio%d]: %d close events by t=%v, state %s (%s)", eio, len(cr), x.Now(), s.rec.Sock.ReadyState(), id)
						return
					}
					for _, e := range s.rec.Events {
						if e.Name == "close" && (e.At != want || e.Arg != "ping timeout") {
							x.Fail("closing-deadline[eio%d]: closed at %v with %q, expected the heartbeat deadline %v with ping timeout (%s)", eio, e.At, e.Arg, want, id)
						}
					}
					x.Outcome = fmt.Sprint(cr)
				})
			}
		}
		c.Res.Distinct = int64(n)
		c.Note("a polling session with no poll pending: Send + Close(false) at t=1, the client never polls again; the session must end exactly at the heartbeat deadline (I+T) with ping timeout")
	})
}
