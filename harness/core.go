// Package harness holds the scenarios, oracles and reference models of the
// checks. It is compiled as a test binary against the instrumented /repo.
package harness

import (
	"fmt"
	"os"
	"sort"
	"strings"
	"testing"
	"time"

	"verifrt/vsched"
)

// Unit is one independently runnable piece of a property's check.
type Unit struct {
	Prop     string
	Name     string
	Thorough bool // only in the thorough tier
	Shards   int  // >1: in the thorough tier run as that many worker processes, each taking a share of the root execution's alternatives
	Run      func(c *Ctx)
}

var units []*Unit

// registerSharded is register for a unit whose (single) exploration is split over n processes in the thorough tier.
func registerSharded(prop, name string, thorough bool, n int, run func(c *Ctx)) {
	register(prop, name, thorough, run)
	units[len(units)-1].Shards = n
}

func register(prop, name string, thorough bool, run func(c *Ctx)) {
	name = strings.ReplaceAll(name, " ", "_") // unit names are whitespace-separated fields of the listing
	units = append(units, &Unit{Prop: prop, Name: name, Thorough: thorough, Run: run})
}

// Finding is a violating case, replayable.
type Finding struct {
	Property    string        `json:"property"`
	Unit        string        `json:"unit"`
	Scenario    string        `json:"scenario,omitempty"` // E1: explored scenario; E2: case id
	Fingerprint string        `json:"fingerprint"`
	Failures    []string      `json:"failures"`
	Choices     []int         `json:"choices,omitempty"`
	Cost        int           `json:"cost"`
	Stable      bool          `json:"stable"`
	Count       int64         `json:"count"`
	Steps       []vsched.Step `json:"steps,omitempty"`
}

// UnitResult is what a unit reports.
type UnitResult struct {
	Property       string           `json:"property"`
	Unit           string           `json:"unit"`
	Execs          int64            `json:"execs"`       // executions / cases run on the implementation
	States         int64            `json:"states"`      // decision states (search-tree nodes) or distinct canonical states
	Transitions    int64            `json:"transitions"` // scheduled steps / operations applied
	Distinct       int64            `json:"distinct"`    // distinct non-trivial cases by the unit's rule
	Outcomes       map[string]int64 `json:"outcomes"`
	Findings       []*Finding       `json:"findings,omitempty"`
	Samples        []any            `json:"samples,omitempty"`
	Exhaustive     bool             `json:"exhaustive"`
	Bound          int              `json:"bound"`
	BoundCompleted int              `json:"bound_completed"`
	Stopped        []string         `json:"stopped,omitempty"`
	CapsHit        map[string]int64 `json:"caps_hit,omitempty"`
	Notes          []string         `json:"notes,omitempty"`
	Internal       []string         `json:"internal_errors,omitempty"`
	Leftover       int64            `json:"leftover_goroutines"`
	Pruned         int64            `json:"pruned_alternatives"`
	DevCapped      int64            `json:"alternatives_beyond_deviation_bound"`
	WallS          float64          `json:"wall_s"`
}

// Replay selects one scenario/case to re-run with tracing.
type ReplaySpec struct {
	Unit     string `json:"unit"`
	Scenario string `json:"scenario"`
	Choices  []int  `json:"choices"`
}

// Ctx is handed to a unit.
type Ctx struct {
	T        *testing.T
	Tier     string
	Res      *UnitResult
	Replay   *ReplaySpec
	Budget   time.Duration // per Explore call
	Shard    int
	NShards  int
	Sharded  bool // the unit asked for intra-unit sharding
	byFP     map[string]*Finding
	seenCase map[string]bool
}

func (c *Ctx) Thorough() bool { return c.Tier == "thorough" }

// Pick returns q in the quick tier and t in the thorough tier.
func Pick[T any](c *Ctx, q, t T) T {
	if c.Thorough() {
		return t
	}
	return q
}

func (c *Ctx) Note(format string, a ...any) {
	c.Res.Notes = append(c.Res.Notes, fmt.Sprintf(format, a...))
}

func (c *Ctx) Sample(v any) {
	if len(c.Res.Samples) < 6 {
		c.Res.Samples = append(c.Res.Samples, v)
	}
}

// fingerprint of a failure message: the class before the first ": ".
func fingerprint(msg string) string {
	if i := strings.Index(msg, ": "); i > 0 {
		return msg[:i]
	}
	if i := strings.IndexByte(msg, '\n'); i > 0 {
		return msg[:i]
	}
	return msg
}

func (c *Ctx) addFinding(f *Finding) {
	if c.byFP == nil {
		c.byFP = map[string]*Finding{}
	}
	key := f.Fingerprint
	if old, ok := c.byFP[key]; ok {
		old.Count += f.Count
		return
	}
	c.byFP[key] = f
	c.Res.Findings = append(c.Res.Findings, f)
}

// Explore runs an E1/E2-deviation search of body under the scenario name.
func (c *Ctx) Explore(scenario string, bound int, body vsched.Body) *vsched.ExploreResult {
	return c.ExploreDev(scenario, bound, 0, body)
}

// ExploreDev is Explore with a bound on the total number of non-default
// scheduling decisions per execution (0 = none).
func (c *Ctx) ExploreDev(scenario string, bound, maxDev int, body vsched.Body) *vsched.ExploreResult {
	if c.Replay != nil {
		if c.Replay.Scenario != scenario {
			return nil
		}
		r, out := vsched.Replay(c.T, body, c.Replay.Choices, vsched.Options{})
		fmt.Printf("REPLAY unit=%s scenario=%s choices=%v\noutcome: %s\n", c.Res.Unit, scenario, c.Replay.Choices, out)
		for _, s := range r.StepTrace {
			fmt.Printf("  step %4d vt=%6dms %-40s %-9s obj=%d %s\n", s.N, s.VT, s.Thread, s.Op, s.Obj, s.Label)
		}
		for _, f := range r.Failures {
			fmt.Printf("FAILURE: %s\n", f)
		}
		if len(r.Failures) == 0 {
			fmt.Println("no failure on this tree")
		}
		c.Res.Execs++
		return nil
	}
	opt := vsched.ExploreOpts{Bound: bound, MaxDev: maxDev, Budget: c.Budget, Fingerprint: fingerprint}
	if c.Sharded {
		opt.Shard, opt.NShards = c.Shard, c.NShards
	}
	opt.NoReduction = os.Getenv("VERIF_NOREDUCE") == "1"
	r := vsched.Explore(c.T, body, opt)
	c.Res.Execs += r.Execs
	c.Res.Transitions += r.Steps
	c.Res.States += r.ChoicePoints
	c.Res.Leftover += r.Leftover
	c.Res.Pruned += r.Pruned
	c.Res.DevCapped += r.DevCapped
	for k, v := range r.Outcomes {
		c.Res.Outcomes[scenario+" => "+k] += v
	}
	for k, v := range r.CapsHit {
		if c.Res.CapsHit == nil {
			c.Res.CapsHit = map[string]int64{}
		}
		c.Res.CapsHit[k] += v
	}
	if r.Diverged != "" {
		c.Res.Internal = append(c.Res.Internal, scenario+": replay divergence: "+r.Diverged)
	}
	if !r.Exhaustive {
		c.Res.Exhaustive = false
		c.Res.Stopped = append(c.Res.Stopped, fmt.Sprintf("%s: %s after bound %d", scenario, r.Stopped, r.BoundCompleted))
	}
	if r.BoundCompleted < c.Res.BoundCompleted {
		c.Res.BoundCompleted = r.BoundCompleted
	}
	if bound > c.Res.Bound {
		c.Res.Bound = bound
	}
	for _, v := range r.Violations {
		if !v.Stable {
			c.Res.Internal = append(c.Res.Internal, scenario+": violation did not replay identically: "+v.Fingerprint+" :: "+fmt.Sprint(v.Failures))
			continue
		}
		c.addFinding(&Finding{Property: c.Res.Property, Unit: c.Res.Unit, Scenario: scenario, Fingerprint: v.Fingerprint,
			Failures: v.Failures, Choices: v.Choices, Cost: v.Cost, Stable: v.Stable, Count: v.Count, Steps: v.Steps})
	}
	return r
}

// Once runs body on the default schedule only (E2 cases that need the engine's
// goroutines and clock but no interleaving exploration).
func (c *Ctx) Once(caseID string, body vsched.Body) {
	if c.Replay != nil && c.Replay.Scenario != caseID {
		return
	}
	var outcome string
	r := vsched.RunOnce(c.T, nil, nil, vsched.Options{Tracing: c.Replay != nil}, func(x *vsched.Exec) {
		body(x)
		outcome = x.Outcome
	})
	c.Res.Execs++
	c.Res.Transitions += int64(r.Steps)
	c.Res.States += int64(len(r.Trace))
	c.Res.Leftover += int64(r.Leftover)
	if outcome != "" {
		c.Res.Outcomes[outcome]++
	}
	if r.CapHit != "" {
		if c.Res.CapsHit == nil {
			c.Res.CapsHit = map[string]int64{}
		}
		c.Res.CapsHit[r.CapHit]++
		c.Res.Exhaustive = false
	}
	if c.Replay != nil {
		fmt.Printf("REPLAY unit=%s case=%s\noutcome: %s\n", c.Res.Unit, caseID, outcome)
		for _, f := range r.Failures {
			fmt.Printf("FAILURE: %s\n", f)
		}
		if len(r.Failures) == 0 {
			fmt.Println("no failure on this tree")
		}
		return
	}
	if len(r.Failures) > 0 {
		c.addFinding(&Finding{Property: c.Res.Property, Unit: c.Res.Unit, Scenario: caseID, Fingerprint: fingerprint(r.Failures[0]),
			Failures: r.Failures, Stable: true, Count: 1})
	}
}

// Case runs a plain (scheduler-free) E2 case; f returns failure messages.
func (c *Ctx) Case(caseID string, f func() []string) {
	if c.Replay != nil && c.Replay.Scenario != caseID {
		// not the case asked for: run it silently all the same, the searches that build their frontier
		// from what a case computes (state keys) need it to reach the deeper cases
		func() {
			defer func() { recover() }()
			f()
		}()
		return
	}
	var fails []string
	func() {
		defer func() {
			if r := recover(); r != nil {
				cls := caseID
				if i := strings.IndexAny(cls, ":| "); i > 0 {
					cls = cls[:i]
				}
				fails = append(fails, fmt.Sprintf("panic[%s %s]: in case %s", cls, strings.ReplaceAll(fmt.Sprint(r), ": ", " - "), caseID))
			}
		}()
		fails = f()
	}()
	c.Res.Execs++
	if c.Replay != nil {
		fmt.Printf("REPLAY unit=%s case=%s\n", c.Res.Unit, caseID)
		for _, f := range fails {
			fmt.Printf("FAILURE: %s\n", f)
		}
		if len(fails) == 0 {
			fmt.Println("no failure on this tree")
		}
		return
	}
	if len(fails) > 0 {
		c.addFinding(&Finding{Property: c.Res.Property, Unit: c.Res.Unit, Scenario: caseID, Fingerprint: fingerprint(fails[0]),
			Failures: fails, Stable: true, Count: 1})
	}
}

func sortedKeys[M ~map[string]V, V any](m M) []string {
	ks := make([]string, 0, len(m))
	for k := range m {
		ks = append(ks, k)
	}
	sort.Strings(ks)
	return ks
}
