package harness

import (
	"fmt"
	"strings"
	"time"
	"unsafe"

	"github.com/zishang520/engine.io/v2/config"
	"github.com/zishang520/engine.io/v2/transports"
	"github.com/zishang520/engine.io/v2/types"
	"verifrt/vsched"
)

// C08 — transport upgrade. A polling session, one or two upgrade candidates
// (websocket through the real HTTP upgrade path; webtransport through the real
// Conn + MaybeUpgrade), candidate scripts over a packet alphabet, crossed with
// application sends, a session close, the upgrade timeout and a second candidate;
// every interleaving up to the preemption bound. Oracle = reference upgrade automaton.

// candidate is the client end of an upgrade candidate of either kind.
type candidate struct {
	kind string
	ws   *WSClient
	wc   *WTClient
}

func (c *candidate) obj() uintptr {
	if c.ws != nil {
		return uintptr(unsafe.Pointer(c.ws.Resp))
	}
	return uintptr(unsafe.Pointer(c.wc.Stream))
}

func dialCandidate(w *World, kind, sid string) *candidate {
	if kind == "websocket" {
		return &candidate{kind: kind, ws: w.DialWS(4, sid, false, false, "")}
	}
	wc := w.DialWT(0)
	wc.Upgrade(sid)
	return &candidate{kind: kind, wc: wc}
}

// waitOpen parks until the candidate connection exists (or was refused).
func (c *candidate) waitOpen() bool {
	if c.ws != nil {
		r := c.ws.Resp
		vsched.WaitFor(uintptr(unsafe.Pointer(r)), "candidate-open", func() bool { return r.Conn != nil || r.wrote || r.Returned })
		return r.Conn != nil
	}
	return true
}

func (c *candidate) send(p Pkt) {
	if c.ws != nil {
		c.ws.SendPkt(p)
	} else {
		c.wc.SendPkt(p)
	}
}

func (c *candidate) sendGarbage() {
	if c.ws != nil {
		c.ws.SendFrame(1, []byte("zzz"))
	} else {
		c.wc.SendRaw(wtEncode(wtMsg{false, []byte("zzz")}, 0))
	}
}

func (c *candidate) drop() {
	if c.ws != nil {
		c.ws.Drop()
	} else {
		c.wc.Stream.PeerClose()
	}
}

func (c *candidate) pkts() []Pkt {
	if c.ws != nil {
		p, _ := c.ws.Pkts()
		return p
	}
	p, _ := c.wc.Pkts()
	return p
}

func (c *candidate) gotProbePong() bool {
	for _, p := range c.pkts() {
		if p.Type == '3' && string(p.Data) == "probe" {
			return true
		}
	}
	return false
}

// closedByServer: the server ended the candidate connection.
func (c *candidate) closedByServer() bool {
	if c.ws != nil {
		p := c.ws.pipe()
		return p == nil && (c.ws.Resp.wrote || c.ws.Resp.Returned) || p != nil && p.srvClosed
	}
	return c.wc.Closed() || c.wc.Stream.closed
}

// waitPong parks until the probe pong arrived or the server gave the candidate up.
func (c *candidate) waitPong() bool {
	if c.ws != nil {
		p := c.ws.pipe()
		vsched.WaitFor(uintptr(unsafe.Pointer(p)), "wait-pong", func() bool { return c.gotProbePong() || p.srvClosed })
	} else {
		fs := c.wc.Stream
		vsched.WaitFor(uintptr(unsafe.Pointer(fs)), "wait-pong", func() bool { return c.gotProbePong() || fs.closed || c.wc.Closed() })
	}
	return c.gotProbePong()
}

type upCase struct {
	cand    string // websocket | webtransport
	pending bool   // a poll is pending when the candidate arrives
	word    string // candidate script: P probe ping, p other ping, g pong, m message, U upgrade, n noop, x garbage, D disconnect; "C" = the conformant script
	context string // "" | send | close | second | then-conformant
}

func (u upCase) id() string {
	return fmt.Sprintf("%s pending=%v word=%s ctx=%s", u.cand, u.pending, u.word, u.context)
}

// expectation of the reference automaton for an adversarial word
// (frames sent back to back): "switch", "no-switch", "either".
func upExpect(word string) string {
	probed := false
	for _, ch := range word {
		switch ch {
		case 'P':
			probed = true
		case 'U':
			if probed {
				return "switch"
			}
			return "either" // an upgrade packet without a preceding probe: the statement is silent
		default:
			return "no-switch"
		}
	}
	return "no-switch" // probe(s) only: the upgrade timeout ends the attempt
}

func upOpts() *config.ServerOptions {
	o := config.DefaultServerOptions()
	o.SetPingInterval(sPingInterval)
	o.SetPingTimeout(sPingTimeout)
	o.SetTransports(types.NewSet("polling", "websocket", "webtransport"))
	return o
}

// conformantUpgrade runs the protocol-conformant client script on a fresh candidate: probe, wait for
// the pong, let the pending poll return (the server's noop) without polling again, send upgrade.
// It returns the candidate and whether the script got as far as sending the upgrade packet.
func conformantUpgrade(w *World, s *sess, kind string, pollLoop func(stop func() bool), late time.Duration) (*candidate, bool) {
	return conformantUpgradeDelayed(w, s, kind, pollLoop, late, 0)
}

// conformantUpgradeDelayed: upDelay is the time the client's upgrade packet takes to arrive after its
// last poll has come back (computation is instantaneous in virtual time, a network is not).
func conformantUpgradeDelayed(w *World, s *sess, kind string, pollLoop func(stop func() bool), late, upDelay time.Duration) (*candidate, bool) {
	c := dialCandidate(w, kind, s.pc.Sid)
	if !c.waitOpen() {
		return c, false
	}
	c.send(Pkt{Type: '2', Data: []byte("probe")})
	paused := false
	_ = late
	if pollLoop != nil {
		vsched.GoNamed("poller", func() { pollLoop(func() bool { return paused }) })
	}
	if late > 0 {
		// the pong reaches the client late: meanwhile its polling side carries on (and re-polls
		// when the server's noop comes back)
		vsched.Sleep(late)
	}
	if !c.waitPong() {
		paused = true
		return c, false
	}
	paused = true // stop polling once the current poll has returned
	if s.pending != nil {
		s.pending.Wait()
	}
	if upDelay > 0 {
		vsched.Sleep(upDelay)
	}
	c.send(Pkt{Type: '5'})
	return c, true
}

func upBody(u upCase) vsched.Body { return upBodyFor(u, "C08") }

// upBodyFor runs the scenario with the oracle of the given property (C08: upgrade automaton; C03:
// lifecycle of the session across the attempt; C04: registry at every quiescent point and at the end).
func upBodyFor(u upCase, oracle string) vsched.Body {
	inner := upBodyInner(u, oracle)
	keep := map[string][]string{
		"C01": {"outbound-across-upgrade", "old-transport-outbound", "panic", "script-blocked"},
		"C18": {"callbacks-across-upgrade", "callback-before-flush", "flushed-twice", "panic"},
		"C12": {"close-count", "close-reason", "candidate-leaked", "table-not-empty", "panic"},
	}[oracle]
	if keep == nil {
		return inner
	}
	return func(x *vsched.Exec) {
		inner(x)
		var out []string
		for _, f := range x.Failures {
			for _, k := range keep {
				if strings.HasPrefix(f, k) {
					out = append(out, f)
					break
				}
			}
		}
		x.Failures = out
	}
}

func upBodyInner(u upCase, oracle string) vsched.Body {
	if oracle != "C03" && oracle != "C04" {
		oracle = "C08"
	}
	return func(x *vsched.Exec) {
		w := NewWorld(x, upOpts())
		if oracle == "C04" {
			x.OnQuiescent = func() { w.checkRegistry("[upgrade " + u.id() + "][quiescent]") }
		}
		s := openSession(x, w, "polling", u.pending)
		if s == nil {
			return
		}
		id := u.id()
		fp := fmt.Sprintf("[%s word=%s ctx=%s]", u.cand, u.word, u.context)
		var cands []*candidate
		var polled []*Resp   // polls made by the client during the run
		var gotPoll []Pkt    // messages received over polling, in order
		var sentApp []string // application sends, in order
		scriptDone := false
		sentUpgrade := false
		var cbRan []string
		var cbSeq []int
		closeFalseAtMs := 0
		if u.word == "L" {
			closeFalseAtMs = 150 // while the late-pong client is between pong and upgrade
		}
		if u.word == "C" && u.pending {
			closeFalseAtMs = 100 // the instant at which the noop releases the poll and the client upgrades
		}
		staleChecked, staleUpgrading, staleThirdPong, staleSecondEntertained := false, false, false, false
		collect := func(r *Resp) {
			if r == nil || !r.wrote || r.Code != 200 {
				return
			}
			if pk, err := s.pc.DecodeResp(r); err == nil {
				for _, p := range pk {
					if p.Type == '4' {
						gotPoll = append(gotPoll, p)
					}
				}
			}
		}
		appSend := func(d string) {
			sentApp = append(sentApp, d)
			s.rec.Sock.Send(types.NewStringBufferString(d), nil, nil)
		}
		// the polling side of the client: keeps one poll outstanding until told to pause
		pollLoop := func(stop func() bool) {
			for i := 0; i < 40 && !stop(); i++ {
				if s.pending != nil && !s.pending.wrote {
					s.pending.Wait()
					continue
				}
				r := s.pc.Get()
				s.pending = r
				polled = append(polled, r)
				r.Wait()
				if r.Code != 200 {
					return
				}
			}
		}
		if u.pending {
			polled = append(polled, s.pending)
		}
		switch {
		case u.word == "C" || u.word == "L" || u.word == "S":
			vsched.GoNamed("client", func() {
				w.BeginAction()
				var pl func(func() bool)
				if u.pending {
					pl = pollLoop
				}
				late := time.Duration(0)
				if u.word == "L" {
					late = 150 * time.Millisecond
				}
				upDelay := time.Duration(0)
				if u.word == "S" {
					upDelay = 100 * time.Millisecond // the upgrade packet arrives 100ms after the released poll came back
				}
				c, ok := conformantUpgradeDelayed(w, s, u.cand, pl, late, upDelay)
				cands = append(cands, c)
				sentUpgrade = ok
				scriptDone = true
			})
		default:
			vsched.GoNamed("candidate", func() {
				w.BeginAction()
				c := dialCandidate(w, u.cand, s.pc.Sid)
				cands = append(cands, c)
				if !c.waitOpen() {
					scriptDone = true
					return
				}
				for _, ch := range u.word {
					switch ch {
					case 'P':
						c.send(Pkt{Type: '2', Data: []byte("probe")})
					case 'p':
						c.send(Pkt{Type: '2', Data: []byte("other")})
					case 'g':
						c.send(Pkt{Type: '3', Data: []byte("probe")})
					case 'm':
						c.send(Msg("cand-msg"))
					case 'U':
						c.send(Pkt{Type: '5'})
						sentUpgrade = true
					case 'n':
						c.send(Pkt{Type: '6'})
					case 'x':
						c.sendGarbage()
					case 'D':
						c.drop()
					}
				}
				scriptDone = true
			})
		}
		ctxBase := strings.TrimSuffix(u.context, "+slowflush")
		if ctxBase != u.context {
			// an application flush listener that takes a while (once): the flush that announced a batch is
			// still inside its listeners while the upgrade goes on
			sleptOnce := false
			s.rec.Sock.On("flush", func(...any) {
				if !sleptOnce {
					sleptOnce = true
					vsched.Sleep(150 * time.Millisecond)
				}
			})
		}
		switch ctxBase {
		case "send":
			vsched.GoNamed("app", func() {
				w.BeginAction()
				appSend("a1")
				appSend("a2")
			})
		case "send-cb":
			vsched.GoNamed("app", func() {
				w.BeginAction()
				for _, d := range []string{"a1", "a2", "a3"} {
					d := d
					sentApp = append(sentApp, d)
					s.rec.Sock.Send(types.NewStringBufferString(d), nil, func(transports.Transport) {
						cbRan = append(cbRan, d)
						cbSeq = append(cbSeq, len(w.Events))
					})
				}
			})
		case "close-false":
			vsched.GoNamed("act:close-false", func() {
				w.BeginAction()
				vsched.Sleep(time.Duration(closeFalseAtMs) * time.Millisecond)
				s.rec.Sock.Close(false)
			})
		case "close":
			vsched.GoNamed("act:close-true", func() {
				w.BeginAction()
				s.rec.Sock.Close(true)
			})
		case "close-late-upgrade":
			// the application closes the session while an attempt is in progress; the client's upgrade
			// packet is sent only after the close event has been seen (an action begun after the close)
			vsched.GoNamed("act:close-true", func() {
				w.BeginAction()
				vsched.Sleep(50 * time.Millisecond)
				s.rec.Sock.Close(true)
			})
			vsched.GoNamed("late-upgrade", func() {
				vsched.WaitFor(0, "wait-close-event", func() bool { return s.rec.Count("close") > 0 })
				w.BeginAction()
				if len(cands) > 0 {
					cands[0].send(Pkt{Type: '5'})
				}
			})
		case "stale-timer":
			// attempt A (the word) ends early; attempt B starts at 5s and is still in progress when A's
			// upgrade timeout would have elapsed (10s); a third candidate then must still be refused
			vsched.GoNamed("later-candidates", func() {
				w.BeginAction()
				vsched.Sleep(5 * time.Second)
				b := dialCandidate(w, u.cand, s.pc.Sid)
				cands = append(cands, b)
				if !b.waitOpen() {
					return
				}
				b.send(Pkt{Type: '2', Data: []byte("probe")})
				vsched.SleepUntil(10500 * time.Millisecond)
				staleUpgrading = s.rec.Sock.Upgrading()
				staleChecked = true
				staleSecondEntertained = b.gotProbePong()
				c3 := dialCandidate(w, u.cand, s.pc.Sid)
				if c3.waitOpen() {
					c3.send(Pkt{Type: '2', Data: []byte("probe")})
				}
				vsched.Sleep(400 * time.Millisecond)
				staleThirdPong = c3.gotProbePong()
				b.send(Pkt{Type: '5'})
				sentUpgrade = true
			})
		case "third":
			// while the first candidate's attempt is in progress (probed, no upgrade packet yet) a second
			// candidate arrives and is refused, then a third one
			vsched.GoNamed("candidates-2-3", func() {
				w.BeginAction()
				vsched.Sleep(20 * time.Millisecond)
				for i := 0; i < 2; i++ {
					c := dialCandidate(w, u.cand, s.pc.Sid)
					cands = append(cands, c)
					if c.waitOpen() {
						c.send(Pkt{Type: '2', Data: []byte("probe")})
					}
					vsched.Sleep(20 * time.Millisecond)
				}
			})
		case "second":
			vsched.GoNamed("candidate2", func() {
				w.BeginAction()
				c := dialCandidate(w, u.cand, s.pc.Sid)
				cands = append(cands, c)
				if c.waitOpen() {
					c.send(Pkt{Type: '2', Data: []byte("probe")})
				}
			})
		}
		// first phase (explored): the first 300ms, i.e. everything up to the third 100ms check tick;
		// the rest of the run follows the default schedule
		x.Run(x.Now() + 300*time.Millisecond)
		x.Frozen = true
		x.Run(x.Now() + 1700*time.Millisecond)
		if u.context == "second" || u.context == "third" {
			n := 0
			for _, c := range cands {
				if c.gotProbePong() {
					n++
				}
			}
			if n > 1 {
				x.Fail("two-candidates-entertained[%s]: %d candidates of one session were answered with a probe pong within 2s (%s)", u.cand, n, id)
			}
		}
		// second phase: past the upgrade timeout
		x.Run(x.Now() + 11*time.Second)
		x.Frozen = true
		if u.context == "close-false" {
			// a graceful close without a poll to carry it is bounded by the 30s close timeout
			x.Run(x.Now() + 22*time.Second)
		}
		for _, t := range x.Panics() {
			x.Fail("panic%s: thread %s: %v (%s)\n%s", fp, t.Name, t.Panic, id, trimStack(t.Stack))
		}
		if u.context == "stale-timer" {
			if !staleChecked {
				x.Fail("stale-timer-script%s: the later candidates did not run (%s)", fp, id)
			} else if !staleSecondEntertained {
				// the first attempt was still pending when the second candidate arrived (its end was not
				// noticed before the timeout: the events-before-listeners finding) - nothing to assert here
				x.Outcome = "second candidate not entertained"
				return
			} else {
				if !staleUpgrading {
					x.Fail("upgrading-cleared-by-stale-timer[%s]: at 10.5s a second attempt (probe answered at 5s) is in progress but the session is not marked upgrading (%s)", u.cand, id)
				}
				if staleThirdPong {
					x.Fail("two-candidates-entertained[%s stale-timer]: a third candidate was answered with a probe pong while the second attempt was in progress (%s)", u.cand, id)
				}
			}
		}
		if u.context == "close-after" {
			// the attempt is over (switched, refused or timed out): the application now closes the session
			vsched.GoNamed("act:close-after", func() {
				w.BeginAction()
				s.rec.Sock.Close(true)
			})
			x.Run(x.Now() + time.Second)
			if cr := s.rec.CloseReasons(); len(cr) != 1 || cr[0] != "forced close" {
				x.Fail("close-count[upgrade %s close-after]: close events %v after Close(true) on a session whose upgrade attempt had ended (%s)", u.cand, cr, id)
			}
			if oracle == "C04" {
				r := s.pc.Get()
				x.Run(x.Now() + time.Second)
				if !r.wrote || r.Code != 400 || !strings.Contains(string(r.Body), `"code":1`) {
					x.Fail("closed-session-answers[upgrade %s close-after]: a request naming the closed session was answered %d %s instead of 400 / code 1 (%s)", u.cand, r.Code, bodyPreview(r.Body), id)
				}
			}
		}
		if oracle == "C04" {
			w.checkRegistry("[upgrade " + u.id() + "][end]")
		}
		if oracle == "C03" && u.context == "" {
			// nobody answers the server's pings from here on: whatever became of the attempt, the
			// heartbeat closes the session (the upgrade must not have switched it off)
			x.Run(x.Now() + sPingInterval + sPingTimeout + 5*time.Second)
			if cr := s.rec.CloseReasons(); len(cr) == 0 {
				x.Fail("never-closed[upgrade %s word=%s]: no close event by t=%v although the peer has been silent past the heartbeat deadline; state=%s transport=%s (%s)", u.cand, u.word, x.Now(), s.rec.Sock.ReadyState(), s.rec.Sock.Transport().Name(), id)
			} else if cr[0] != "ping timeout" && cr[0] != "transport error" && cr[0] != "transport close" && cr[0] != "parse error" {
				x.Fail("close-reason[upgrade %s word=%s got=%q]: silent peer after the upgrade attempt, closed with %q (%s)", u.cand, u.word, cr[0], cr[0], id)
			}
		}
		if oracle == "C03" {
			rec := s.rec
			ci := -1
			for i, e := range rec.Events {
				if e.Name == "close" {
					if ci >= 0 {
						x.Fail("close-twice[upgrade %s]: %v (%s)", u.context, rec.CloseReasons(), id)
					}
					ci = i
				}
			}
			if ci >= 0 {
				ce := rec.Events[ci]
				for _, e := range rec.Events[ci+1:] {
					if e.Name == "close" {
						continue
					}
					// (same-instant continuations of actions begun before the close are not "afterwards")
					act, ok := w.actionOf(e.Thread)
					if ok && e.At == ce.At && act <= ce.Seq && !(u.context == "close-late-upgrade" && e.Name == "upgrade") {
						continue
					}
					x.Fail("event-after-close[upgrade %s][%s]: %s after close(%s at %v) (%s)", u.cand, e.Name, e, ce.Arg, ce.At, id)
				}
			}
			last := 0
			for _, e := range rec.Events {
				if r := stateRank[e.State]; r < last {
					x.Fail("state-backwards[upgrade]: %s (%s)", e, id)
				} else {
					last = r
				}
			}
		}
		if oracle != "C08" {
			x.Outcome = fmt.Sprintf("close=%v upgraded=%v", s.rec.CloseReasons(), s.rec.Sock.Upgraded())
			return
		}
		if !scriptDone {
			x.Fail("script-blocked%s: the candidate script did not finish: blocked=%v (%s)", fp, x.Blocked(), id)
			return
		}
		rec := s.rec
		upgrades := rec.Count("upgrade")
		switched := rec.Sock.Upgraded() || rec.Sock.Transport().Name() != "polling"
		if upgrades > 1 {
			x.Fail("upgrade-twice%s: %d upgrade events (%s)", fp, upgrades, id)
		}
		if switched != (upgrades == 1) && rec.Count("close") == 0 {
			x.Fail("upgrade-event%s: transport %s Upgraded()=%v with %d upgrade events (%s)", fp, rec.Sock.Transport().Name(), rec.Sock.Upgraded(), upgrades, id)
		}
		if switched && !sentUpgrade {
			x.Fail("switch-without-upgrade-packet%s: the transport changed although no upgrade packet was sent on a candidate (%s)", fp, id)
		}
		exp := "switch"
		if u.word != "C" && u.word != "L" && u.word != "S" {
			exp = upExpect(u.word)
		}
		if u.context == "close" || u.context == "close-late-upgrade" || u.context == "close-false" {
			if u.context == "close-false" {
				if cr := rec.CloseReasons(); len(cr) == 1 && cr[0] != "forced close" {
					x.Fail("close-reason[%s upgrade+close-false got=%q]: graceful close during an upgrade ended with %q (%s)", u.cand, cr[0], cr[0], id)
				}
			}
			// the session was closed by the application at some point: nothing to assert about the switch,
			// only that exactly one close happened and the candidate did not outlive it
			if cr := rec.CloseReasons(); len(cr) != 1 {
				x.Fail("close-count%s: %v (%s)", fp, cr, id)
			}
			for _, c := range cands {
				if !c.closedByServer() {
					x.Fail("candidate-leaked%s: the session closed but its %s candidate connection is still open; transport %s/%s writable=%v blocked=%v (%s)", fp, c.kind, rec.Sock.Transport().Name(), rec.Sock.Transport().ReadyState(), rec.Sock.Transport().Writable(), x.Blocked(), id)
				}
			}
			if n := w.Srv.ClientsCount(); n != 0 {
				x.Fail("table-not-empty%s: ClientsCount=%d (%s)", fp, n, id)
			}
			x.Outcome = fmt.Sprintf("closed switched=%v", switched)
			return
		}
		if u.context == "second" || u.context == "third" {
			// several candidates: at most one may win; the session must survive
			exp = "either"
		}
		if u.context == "stale-timer" {
			exp = "switch" // the second attempt completes at 10.9s
		}
		if cr := rec.CloseReasons(); len(cr) != 0 && !(switched && strings.ContainsAny(u.word, "pPxD") && strings.IndexByte(u.word, 'U') >= 0) {
			x.Fail("session-lost%s: the session closed with %v (%s)", fp, cr, id)
			return
		}
		if exp == "switch" && !switched {
			how := "probe-unanswered"
			if len(cands) > 0 && cands[0].gotProbePong() {
				how = "stalled-after-pong"
			}
			cls := fmt.Sprintf("%s word=%s ctx=%s %s", u.cand, u.word, u.context, how)
			if how == "probe-unanswered" {
				cls = u.cand + " " + how // one root cause whatever the script: the probe never got its pong
			}
			x.Fail("upgrade-not-completed[%s]: a candidate that followed the protocol did not complete the switch within the upgrade timeout: state %s upgrading=%v (%s)", cls, rec.Sock.ReadyState(), rec.Sock.Upgrading(), id)
		}
		if exp == "no-switch" && switched {
			x.Fail("unexpected-switch%s: transport switched (%s)", fp, id)
		}
		if rec.Count("close") != 0 {
			x.Outcome = fmt.Sprintf("switched=%v closed-after-switch", switched)
			return
		}
		if switched {
			if u.pending && !polled[0].wrote {
				x.Fail("poll-not-released%s: the poll pending at the time of the upgrade was never answered (%s)", fp, id)
			}
			// traffic on the new transport, both directions
			c := cands[0]
			for _, k := range cands {
				if k.gotProbePong() {
					c = k
				}
			}
			before := len(rec.Messages())
			vsched.GoNamed("post-upgrade", func() {
				c.send(Msg("after-up"))
				appSend("z1")
			})
			x.Run(x.Now() + time.Second)
			ms := rec.Messages()
			if len(ms) != before+1 || string(ms[len(ms)-1].Data) != "after-up" {
				x.Fail("post-upgrade-inbound%s: message sent on the new transport not delivered: %s (%s)", fp, fmtPkts(ms), id)
			}
			for _, r := range polled {
				collect(r)
			}
			var all []string
			for _, p := range gotPoll {
				all = append(all, string(p.Data))
			}
			for _, p := range c.pkts() {
				if p.Type == '4' {
					all = append(all, string(p.Data))
				}
			}
			// (a switch obtained by an upgrade packet without a preceding probe is outside the protocol - the client
			// neither probed nor let its poll return first - and is not asserted either way, section 6 C08: neither is
			// what becomes of a batch that was in flight on the old transport at that moment)
			if exp != "either" && strings.Join(all, ",") != strings.Join(sentApp, ",") {
				x.Fail("outbound-across-upgrade%s: application sent %v, the client received %v (polling part %s) (%s)", fp, sentApp, all, fmtPkts(gotPoll), id)
			}
		} else {
			// not switched: only the candidate is gone, the session is fully usable on polling
			if rec.Sock.ReadyState() != "open" {
				x.Fail("session-state%s: state %s after a failed upgrade (%s)", fp, rec.Sock.ReadyState(), id)
			}
			if rec.Sock.Upgrading() {
				x.Fail("still-upgrading%s: Upgrading() is still true after the attempt ended (past the upgrade timeout) (%s)", fp, id)
			}
			for _, c := range cands {
				// (a candidate whose peer disconnected is gone already)
				if !c.closedByServer() && !strings.Contains(u.word, "D") {
					x.Fail("candidate-not-closed%s: the failed %s candidate was not closed by the server (%s)", fp, c.kind, id)
				}
			}
			if m := rec.Messages(); len(m) != 0 {
				x.Fail("candidate-message-delivered%s: %s (%s)", fp, fmtPkts(m), id)
			}
			// round trip on the old transport
			post := s.pc.Post([]Pkt{Msg("still-here")})
			vsched.GoNamed("app2", func() { appSend("b1") })
			x.Run(x.Now() + time.Second)
			if s.pending == nil || s.pending.wrote {
				r := s.pc.Get()
				polled = append(polled, r)
				x.Run(x.Now() + time.Second)
			}
			if !post.wrote || post.Code != 200 || len(rec.Messages()) != 1 {
				x.Fail("old-transport-inbound%s: data request on the original transport answered %d, messages %s (%s)", fp, post.Code, fmtPkts(rec.Messages()), id)
			}
			for _, r := range polled {
				collect(r)
			}
			var all []string
			for _, p := range gotPoll {
				all = append(all, string(p.Data))
			}
			if strings.Join(all, ",") != strings.Join(sentApp, ",") {
				x.Fail("old-transport-outbound%s: application sent %v, polling client received %v (%s)", fp, sentApp, all, id)
			}
			// a further, conformant attempt must succeed
			if u.context == "then-conformant" || u.context == "" {
				x.Frozen = false
				done := false
				var c2 *candidate
				if s.pending != nil && s.pending.wrote {
					s.pending = nil
				}
				vsched.GoNamed("client2", func() {
					w.BeginAction()
					c2, _ = conformantUpgrade(w, s, u.cand, nil, 0)
					done = true
				})
				x.Frozen = true
				x.Run(x.Now() + 11*time.Second)
				if !done || !rec.Sock.Upgraded() {
					x.Fail("second-attempt-failed%s: after the failed attempt a conformant candidate did not complete the switch (done=%v pong=%v upgrading=%v state=%s) (%s)", fp, done, c2 != nil && c2.gotProbePong(), rec.Sock.Upgrading(), rec.Sock.ReadyState(), id)
				}
			}
		}
		if strings.HasPrefix(u.context, "send-cb") && rec.Count("close") == 0 {
			// callbacks: each exactly once, in send order, none before the flush event of its packet
			if strings.Join(cbRan, ",") != "a1,a2,a3" {
				x.Fail("callbacks-across-upgrade%s: sends a1 a2 a3 with callbacks, callbacks ran %v (session open, transport %s) (%s)", fp, cbRan, rec.Sock.Transport().Name(), id)
			}
			flushed := map[string]int{}
			for _, e := range rec.Events {
				if e.Name == "flush" {
					for _, p := range e.Pkts {
						if p.Type == '4' {
							if _, dup := flushed[string(p.Data)]; dup {
								x.Fail("flushed-twice%s: %q (%s)", fp, p.Data, id)
							}
							flushed[string(p.Data)] = e.Seq
						}
					}
				}
			}
			for i, d := range cbRan {
				if fs, ok := flushed[d]; !ok || cbSeq[i] <= fs {
					x.Fail("callback-before-flush%s: callback of %q ran before the flush event of its packet (%s)", fp, d, id)
				}
			}
		}
		x.Outcome = fmt.Sprintf("switched=%v", switched)
	}
}

func upWords(maxLen int) []string {
	alpha := "PpgmUnxD"
	var out []string
	var rec func(cur string)
	rec = func(cur string) {
		if cur != "" {
			// after a switch only harmless traffic is generated (anything else is a close cause of C03/C07)
			if i := strings.IndexByte(cur, 'U'); i >= 0 && upExpect(cur) != "no-switch" {
				if strings.ContainsAny(cur[i+1:], "PpxDUm") {
					return
				}
			}
			out = append(out, cur)
		}
		if len(cur) == maxLen {
			return
		}
		for _, ch := range alpha {
			if strings.HasSuffix(cur, "D") {
				return
			}
			rec(cur + string(ch))
		}
	}
	rec("")
	return out
}

func init() {
	quickSet := map[string]bool{}
	gen := func(thorough bool) []upCase {
		var out []upCase
		maxLen := 2
		if thorough {
			maxLen = 3
		}
		for _, cand := range []string{"websocket", "webtransport"} {
			for _, pending := range []bool{true, false} {
				out = append(out, upCase{cand, pending, "C", ""}, upCase{cand, pending, "C", "send"}, upCase{cand, pending, "C", "close"}, upCase{cand, pending, "C", "second"})
				out = append(out, upCase{cand, pending, "L", ""}, upCase{cand, pending, "L", "send"})
				if pending {
					out = append(out, upCase{cand, pending, "P", "third"})
				}
				for _, wd := range []string{"PmU", "PnU", "PgU", "PxU", "PpU", "PPU", "PUn", "mPU", "PUg"} {
					out = append(out, upCase{cand, pending, wd, ""})
				}
				for _, wd := range upWords(maxLen) {
					if !pending && !thorough && len(wd) > 1 {
						continue
					}
					out = append(out, upCase{cand, pending, wd, ""})
					if len(wd) <= 2 && (thorough || pending) {
						out = append(out, upCase{cand, pending, wd, "send"})
					}
				}
				for _, wd := range []string{"P", "PU", "x"} {
					out = append(out, upCase{cand, pending, wd, "close"}, upCase{cand, pending, wd, "second"})
				}
				if pending {
					out = append(out, upCase{cand, pending, "PD", "stale-timer"}, upCase{cand, pending, "D", "stale-timer"})
				}
				out = append(out, upCase{cand, pending, "P", "close-late-upgrade"})
			}
		}
		return out
	}
	for _, u := range gen(false) {
		quickSet[u.id()] = true
	}
	seen := map[string]bool{}
	for _, u := range gen(true) {
		u := u
		if seen[u.id()] {
			continue
		}
		seen[u.id()] = true
		register("C08", "upgrade/"+strings.ReplaceAll(u.id(), " ", "_"), !quickSet[u.id()], func(c *Ctx) {
			bound, dev := Pick(c, 1, 2), Pick(c, 2, 4)
			c.ExploreDev(u.id(), bound, dev, upBody(u))
			c.Sample(u.id())
			c.Res.Distinct = 1
			c.Note("polling session (poll pending=%v), %s candidate running script %q (C = conformant: probe, wait pong, pause polling, upgrade; L = the same with the pong processed 150ms late while polling continues; else frames back to back over P probe / p other ping / g pong / m message / U upgrade / n noop / x garbage / D disconnect), context %q; every interleaving of the handler, reader, sender, timer and client threads with <=%d preemptions and <=%d context switches off the default schedule; then past the upgrade timeout, sequential epilogue: traffic on the resulting transport, and a conformant second attempt after a failed one", u.pending, u.cand, u.word, u.context, bound, dev)
		})
	}
}

// trimStack keeps the frames of /repo code from a recorded panic stack.
func trimStack(st string) string {
	var out []string
	lines := strings.Split(st, "\n")
	for i := 0; i+1 < len(lines); i++ {
		if strings.Contains(lines[i], "engine.io/v2/") && !strings.Contains(lines[i], "verif") {
			out = append(out, strings.TrimSpace(lines[i])+" "+strings.TrimSpace(lines[i+1]))
		}
	}
	if len(out) > 8 {
		out = out[:8]
	}
	return strings.Join(out, "\n")
}

// the same scenarios under the lifecycle (C03) and registry (C04) oracles
func init() {
	for _, prop := range []string{"C03", "C04"} {
		prop := prop
		for _, cand := range []string{"websocket", "webtransport"} {
			for _, u := range []upCase{{cand, true, "C", ""}, {cand, true, "C", "close"}, {cand, true, "PU", "close"}, {cand, false, "PU", ""}, {cand, true, "P", "close"}, {cand, true, "x", ""}, {cand, true, "P", "close-late-upgrade"}, {cand, false, "P", "close-late-upgrade"},
				{cand, true, "C", "close-after"}, {cand, true, "x", "close-after"}, {cand, true, "P", "close-after"}} {
				u := u
				register(prop, "upgrade/"+strings.ReplaceAll(u.id(), " ", "_"), false, func(c *Ctx) {
					c.ExploreDev(u.id(), Pick(c, 1, 2), Pick(c, 2, 4), upBodyFor(u, prop))
					c.Sample(u.id())
					c.Res.Distinct = 1
					c.Note("the C08 scenario (%s candidate, script %q, context %q) under this property's oracle", u.cand, u.word, u.context)
				})
			}
		}
	}
}

// the upgrade scenarios under the outbound (C01), callback (C18) and orderly-close (C12) oracles
func init() {
	type reg struct {
		prop string
		u    upCase
	}
	var regs []reg
	for _, cand := range []string{"websocket", "webtransport"} {
		for _, word := range []string{"C", "L"} {
			regs = append(regs, reg{"C01", upCase{cand, true, word, "send"}}, reg{"C18", upCase{cand, true, word, "send-cb"}}, reg{"C12", upCase{cand, true, word, "close-false"}})
			regs = append(regs, reg{"C01", upCase{cand, true, word, "send+slowflush"}}, reg{"C18", upCase{cand, true, word, "send-cb+slowflush"}}, reg{"C08", upCase{cand, true, word, "send+slowflush"}})
		}
		// a client whose upgrade packet takes 100ms to arrive: the slow flush resumes while the old transport is
		// still current and its poll has been released by the check tick
		regs = append(regs, reg{"C01", upCase{cand, true, "S", "send+slowflush"}}, reg{"C18", upCase{cand, true, "S", "send-cb+slowflush"}})
		regs = append(regs, reg{"C12", upCase{cand, false, "PU", "close-false"}}, reg{"C08", upCase{cand, true, "C", "close-false"}}, reg{"C08", upCase{cand, true, "L", "close-false"}}, reg{"C08", upCase{cand, true, "C", "send-cb"}})
	}
	for _, r := range regs {
		r := r
		register(r.prop, "upgrade/"+strings.ReplaceAll(r.u.id(), " ", "_"), false, func(c *Ctx) {
			bound, dev := Pick(c, 1, 2), Pick(c, 2, 4)
			c.ExploreDev(r.u.id(), bound, dev, upBodyFor(r.u, r.prop))
			c.Sample(r.u.id())
			c.Res.Distinct = 1
			c.Note("the C08 scenario (%s candidate, script %q, context %q) with this property's oracle clauses only", r.u.cand, r.u.word, r.u.context)
		})
	}
}
