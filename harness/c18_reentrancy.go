package harness

import (
	"fmt"
	"strings"
	"time"

	"github.com/zishang520/engine.io/v2/engine"
	"github.com/zishang520/engine.io/v2/transports"
	"github.com/zishang520/engine.io/v2/types"
	"verifrt/vsched"
)

// C18 re-entrancy: a listener of any session or server event, or a send
// callback, calls Send / Close on the session. The calling thread must come
// back; a thread left waiting for a lock is the witness of a self-deadlock.

func reentrantBody(kind, event, op string) vsched.Body {
	return func(x *vsched.Exec) {
		w := NewWorld(x, sessOpts())
		fired := 0
		returned := 0
		doOp := func(s engine.Socket) {
			if fired > 0 {
				return // once: the operation itself may re-trigger the event
			}
			fired++
			switch op {
			case "Send":
				s.Send(types.NewStringBufferString("re"), nil, nil)
			case "Close(false)":
				s.Close(false)
			case "Close(true)":
				s.Close(true)
			}
			returned++
		}
		if strings.HasPrefix(event, "server:") {
			name := strings.TrimPrefix(event, "server:")
			w.Srv.On(types.EventName(name), func(a ...any) {
				if s, ok := a[0].(engine.Socket); ok {
					doOp(s)
				}
			})
		} else if event != "callback" {
			w.OnConnection = func(rec *SockRec) {
				rec.Sock.On(types.EventName(event), func(...any) { doOp(rec.Sock) })
			}
		}
		fp := fmt.Sprintf("[%s %s %s]", kind, event, op)
		s := openSession(x, w, kind, false)
		if s == nil {
			if returned < fired {
				x.Failures = nil
				x.Fail("reentrant-call-stuck%s: %s called from a %s listener during the handshake never returned; blocked: %v", fp, op, event, x.Blocked())
			} else if fired > 0 && strings.HasPrefix(op, "Close") {
				// the application closed the session from a listener while the handshake was
				// still being answered: the call returned, nothing more to check here
				x.Failures = nil
				x.Outcome = "closed by the listener during the handshake"
			}
			return
		}
		x.Frozen = true
		s.startActor()
		// traffic that makes every event fire: an application message (packetCreate, flush, drain,
		// callback), a client message (packet, message), a heartbeat round, finally a close
		var cb engine.SendCallback
		if event == "callback" {
			cb = func(transports.Transport) { doOp(s.rec.Sock) }
		}
		vsched.GoNamed("app-send", func() {
			s.rec.Sock.Send(types.NewStringBufferString("m1"), nil, cb)
		})
		x.Settle()
		if s.pc != nil {
			s.pc.Post([]Pkt{Msg("c1")})
		} else {
			s.ws.SendPkt(Msg("c1"))
		}
		x.Run(x.Now() + 30*time.Second) // ping at 25s, actor answers -> heartbeat
		vsched.GoNamed("app-close", func() { s.rec.Sock.Close(false) })
		x.Run(x.Now() + 60*time.Second)
		if fired == 0 {
			x.Fail("event-never-fired%s: the scenario did not make %s fire", fp, event)
		}
		if returned < fired {
			x.Fail("reentrant-call-stuck%s: %s called from a %s listener never returned; blocked: %v", fp, op, event, x.Blocked())
		}
		for _, b := range x.Blocked() {
			if strings.Contains(b, "waiting:") {
				x.Fail("deadlock%s: %s", fp, b)
			}
		}
		for _, t := range x.Panics() {
			x.Fail("panic%s: %s: %v", fp, t.Name, t.Panic)
		}
		x.Outcome = fmt.Sprintf("fired=%d returned=%d close=%v", fired, returned, s.rec.CloseReasons())
	}
}

func init() {
	events := []string{"packet", "packetCreate", "message", "heartbeat", "flush", "drain", "close", "callback", "server:connection", "server:flush", "server:drain"}
	ops := []string{"Send", "Close(false)", "Close(true)"}
	for _, kind := range []string{"polling", "websocket"} {
		kind := kind
		register("C18", "reentrancy/"+kind, false, func(c *Ctx) {
			n := 0
			for _, ev := range events {
				for _, op := range ops {
					n++
					id := fmt.Sprintf("%s %s %s", kind, ev, op)
					c.Once(id, reentrantBody(kind, ev, op))
					if n%7 == 1 {
						c.Sample(id)
					}
				}
			}
			c.Res.Distinct = int64(n)
			c.Note("every session/server event and the send callback x {Send, Close(false), Close(true)} invoked from the listener, %s session with a conformant client, default schedule (a self-deadlock is schedule independent)", kind)
		})
	}
}
