package harness

import (
	"errors"
	"os"
	"fmt"
	"net"
	"net/http"
	"reflect"
	"sort"
	"strings"
	"time"
	"unsafe"

	"github.com/zishang520/engine.io/v2/engine"
	"github.com/zishang520/engine.io/v2/transports"
	"github.com/zishang520/engine.io/v2/types"
	"verifrt/vsched"
)

// Flow scenarios (C01 ordering, C18 flush/drain/callbacks, C12 orderly close):
// a session with a conformant client actor, one or two application sender
// threads, optional Close / Server.Close, every interleaving up to the bound.

type cbRec struct {
	name string
	seq  int // len(w.Events) when it ran
	at   time.Duration
}

type flow struct {
	*sess
	sent  map[string][]string // sender -> payloads in call order
	cbs   []cbRec
	srvEv []string // server-level flush/drain events in order
	clock int      // harness marks: order of Send returns and Close calls
	sendReturned map[string]int
	closeCalled  int
}

func (f *flow) sender(name string, n int, withCb bool) func() { return f.senderSlow(name, n, withCb, false) }

func (f *flow) senderSlow(name string, n int, withCb, slow bool) func() {
	return func() {
		for i := 1; i <= n; i++ {
			p := fmt.Sprintf("%s%d", name, i)
			f.sent[name] = append(f.sent[name], p)
			var cb engine.SendCallback
			if withCb {
				cb = func(transports.Transport) {
					f.cbs = append(f.cbs, cbRec{p, len(f.w.Events), f.x.Now()})
					if slow {
						vsched.Sleep(2 * time.Millisecond) // a callback that takes a while
					}
				}
			}
			if slow && i > 3 {
				vsched.Sleep(time.Millisecond) // later sends arrive while earlier callbacks are still running
			}
			f.rec.Sock.Send(types.NewStringBufferString(p), nil, cb)
			f.clock++
			f.sendReturned[p] = f.clock
		}
	}
}

type flowCase struct {
	nSends  int  // sends per sender (default 2)
	slowCb  bool // callbacks contain a scheduling point (a callback that takes a while)
	noBeat  bool // ping interval of an hour: no heartbeat traffic that could flush a stuck packet
	pinger  bool // silent revision-3 client that never polls but keeps posting its heartbeat ping every 10s
	kind    string
	actor   bool
	senders []string // "A", "B"
	closer  string   // "", close-false, close-true, server-close
	closer2 string   // issued one virtual second after the first
	cb      bool
}

func (c flowCase) id() string {
	a := "silent"
	if c.actor {
		a = "actor"
	}
	cl := c.closer
	if c.closer2 != "" {
		cl += ">" + c.closer2
	}
	extra := ""
	if c.nSends > 0 {
		extra += fmt.Sprintf(" sends=%d", c.nSends)
	}
	if c.slowCb {
		extra += " slow-callbacks"
	}
	if c.noBeat {
		extra += " no-heartbeat"
	}
	if c.pinger {
		extra += " pinging-never-polling"
	}
	return strings.TrimSpace(fmt.Sprintf("%s %s senders=%s cb=%v%s %s", c.kind, a, strings.Join(c.senders, ""), c.cb, extra, cl))
}

func flowBody(c flowCase, oracle string) vsched.Body {
	return func(x *vsched.Exec) {
		so := sessOpts()
		if c.noBeat {
			so.SetPingInterval(time.Hour)
		}
		w := NewWorld(x, so)
		s := openSession(x, w, c.kind, false)
		if s == nil {
			return
		}
		f := &flow{sess: s, sent: map[string][]string{}, sendReturned: map[string]int{}}
		for _, ev := range []string{"flush", "drain"} {
			ev := ev
			w.Srv.On(types.EventName(ev), func(...any) { f.srvEv = append(f.srvEv, ev) })
		}
		if c.actor {
			s.startActor()
		}
		if c.pinger && s.pc != nil {
			vsched.GoNamed("pinger", func() {
				for i := 0; i < 11; i++ {
					vsched.Sleep(10 * time.Second)
					if s.rec.Count("close") > 0 {
						return
					}
					r := s.pc.Post([]Pkt{{Type: '2'}})
					r.Wait()
					if r.Code != 200 {
						return
					}
				}
			})
		}
		for _, name := range c.senders {
			ns := 2
			if c.nSends > 0 {
				ns = c.nSends
			}
			fn := f.senderSlow(name, ns, c.cb, c.slowCb)
			vsched.GoNamed("sender:"+name, func() { w.BeginAction(); fn() })
		}
		var actions []string
		if c.closer != "" {
			actions = append(actions, c.closer)
			fn := s.action(c.closer)
			vsched.GoNamed("act:"+c.closer, func() {
				w.BeginAction()
				f.clock++
				f.closeCalled = f.clock
				fn()
			})
		}
		fp := "[" + c.id() + "]"
		if c.closer2 != "" {
			fn := s.action(c.closer2)
			done := false
			vsched.GoNamed("act2:"+c.closer2, func() {
				w.BeginAction()
				vsched.Sleep(time.Second)
				fn()
				done = true
			})
			checked := false
			x.OnQuiescent = func() {
				if done && !checked {
					checked = true
					// the second close is a discarding one (Close(true) / Server.Close): once it has
					// returned and the server is quiescent the session must be closed and forgotten
					if st := s.rec.Sock.ReadyState(); st != "closed" {
						// observable distinction: had the graceful close already reached the transport?
						tst := "transport-" + s.rec.Sock.Transport().ReadyState()
						x.Fail("discarding-close-ignored[%s %s>%s %s]: %s returned, server quiescent, session still %q (%s)", c.kind, c.closer, c.closer2, tst, c.closer2, st, c.id())
					}
					if n := w.Srv.ClientsCount(); n != 0 {
						x.Fail("table-not-empty-after-close[%s %s>%s transport-%s]: ClientsCount=%d after %s (%s)", c.kind, c.closer, c.closer2, s.rec.Sock.Transport().ReadyState(), n, c.closer2, c.id())
					}
				}
			}
		}
		x.Run(x.Now() + 10*time.Second)
		x.Frozen = true
		x.Run(x.Now() + 100*time.Second)
		switch oracle {
		case "C01":
			f.oracleOrder(fp, c)
		case "C18":
			f.oracleFlush(fp, c)
		case "C12":
			f.oracleClose(fp, c)
		}
		for _, t := range x.Panics() {
			x.Fail("panic%s: thread %s: %v", fp, t.Name, t.Panic)
		}
		var got []string
		for _, p := range s.got {
			got = append(got, string(p.Data))
		}
		x.Outcome = fmt.Sprintf("got=%v close=%v", got, s.rec.CloseReasons())
		if os.Getenv("VERIF_EVENTS") != "" {
			// (replays: the recorded events of the execution, for reading a witness)
			for _, e := range w.Events {
				fmt.Printf("EVENT #%d %s thread=%s pkts=%s\n", e.Seq, e, e.Thread, fmtPkts(e.Pkts))
			}
			for _, r := range w.Resps {
				fmt.Printf("RESP %s code=%d wrote=%v wroteSeq=%d body=%s\n", r.Desc, r.Code, r.wrote, r.WroteSeq, bodyPreview(r.Body))
			}
		}
	}
}

// oracleOrder: C01 — what the conformant client received.
func (f *flow) oracleOrder(fp string, c flowCase) {
	x := f.x
	seen := map[string]int{}
	next := map[string]int{}
	for _, p := range f.got {
		d := string(p.Data)
		if p.Binary {
			x.Fail("kind-changed%s: text message %q received as binary", fp, d)
		}
		seen[d]++
		if seen[d] > 1 {
			x.Fail("duplicate%s: %q received %d times; received %v", fp, d, seen[d], fmtPkts(f.got))
		}
		name := d[:1]
		lst, ok := f.sent[name]
		if !ok {
			x.Fail("unknown-message%s: received %q which no sender sent", fp, d)
			continue
		}
		i := next[name]
		if i >= len(lst) || lst[i] != d {
			x.Fail("reordered-or-lost%s: sender %s sent %v, client received (all) %v", fp, name, lst, fmtPkts(f.got))
			return
		}
		next[name]++
	}
	// liveness: session stayed open and the client kept reading => everything sent arrives
	if c.actor && c.closer == "" {
		if f.rec.Count("close") > 0 {
			x.Fail("closed-without-cause%s: %v", fp, f.rec.CloseReasons())
		}
		for name, lst := range f.sent {
			if next[name] != len(lst) {
				x.Fail("not-delivered%s: sender %s sent %v, client received %v by t=%v with the session open", fp, name, lst, fmtPkts(f.got), x.Now())
			}
		}
	}
}

// oracleFlush: C18 — flush/drain pairing, packetCreate, callbacks.
func (f *flow) oracleFlush(fp string, c flowCase) {
	x := f.x
	ev := f.rec.Events
	created := map[string]int{}
	createdSeq := map[string]int{}
	flushedSeq := map[string]int{}
	inFlush := false
	closeSeq := -1
	for _, e := range ev {
		switch e.Name {
		case "packetCreate":
			if e.Pkts[0].Type == '4' {
				d := string(e.Pkts[0].Data)
				created[d]++
				createdSeq[d] = e.Seq
			}
		case "flush":
			if inFlush {
				x.Fail("flush-without-drain%s: two flush events without a drain between them", fp)
			}
			inFlush = true
			if len(e.Pkts) == 0 {
				x.Fail("empty-flush%s: flush event with no packets", fp)
			}
			for _, p := range e.Pkts {
				if p.Type != '4' {
					continue
				}
				d := string(p.Data)
				if _, dup := flushedSeq[d]; dup {
					x.Fail("flushed-twice%s: %q handed to the transport twice", fp, d)
				}
				flushedSeq[d] = e.Seq
				if cs, ok := createdSeq[d]; !ok || cs > e.Seq {
					x.Fail("flush-before-packetCreate%s: %q flushed without a preceding packetCreate", fp, d)
				}
			}
		case "drain":
			if !inFlush {
				x.Fail("drain-without-flush%s: drain event not preceded by a flush", fp)
			}
			inFlush = false
		case "close":
			closeSeq = e.Seq
		}
	}
	nf, nd := 0, 0
	for _, e := range f.srvEv {
		if e == "flush" {
			nf++
		} else {
			nd++
		}
	}
	if nf != f.rec.Count("flush") || nd != f.rec.Count("drain") {
		x.Fail("server-events%s: server saw %d flush / %d drain, session emitted %d / %d", fp, nf, nd, f.rec.Count("flush"), f.rec.Count("drain"))
	}
	for name, lst := range f.sent {
		_ = name
		for _, d := range lst {
			if created[d] > 1 {
				x.Fail("packetCreate-twice%s: %q", fp, d)
			}
			if created[d] == 0 && closeSeq < 0 {
				x.Fail("packetCreate-missing%s: Send(%q) on an open session produced no packetCreate", fp, d)
			}
		}
	}
	// callbacks
	ran := map[string]int{}
	lastIdx := map[string]int{}
	for _, cb := range f.cbs {
		ran[cb.name]++
		if ran[cb.name] > 1 {
			x.Fail("callback-twice%s: callback of %q ran %d times", fp, cb.name, ran[cb.name])
		}
		fs, ok := flushedSeq[cb.name]
		if !ok || cb.seq <= fs {
			x.Fail("callback-before-flush%s: callback of %q ran before the flush event of its batch (flushed=%v)", fp, cb.name, ok)
		}
		if closeSeq >= 0 && cb.seq > closeSeq {
			// after the close event: only acceptable as a same-instant continuation
			var ce Event
			for _, e := range ev {
				if e.Name == "close" {
					ce = e
				}
			}
			if cb.at > ce.At {
				x.Fail("callback-after-close%s: callback of %q ran at %v, session closed at %v", fp, cb.name, cb.at, ce.At)
			}
		}
		name := cb.name[:1]
		idx := indexOf(f.sent[name], cb.name)
		if idx < lastIdx[name] {
			x.Fail("callback-order%s: callbacks of sender %s ran out of send order: %v", fp, name, f.cbNames())
		}
		lastIdx[name] = idx
	}
}

func (f *flow) cbNames() []string {
	var out []string
	for _, c := range f.cbs {
		out = append(out, c.name)
	}
	return out
}

func indexOf(l []string, s string) int {
	for i, v := range l {
		if v == s {
			return i
		}
	}
	return -1
}

// oracleClose: C12 — buffered data first, forced close, bounded time, poll released.
func (f *flow) oracleClose(fp string, c flowCase) {
	x := f.x
	closes := f.rec.CloseReasons()
	if len(closes) != 1 {
		x.Fail("close-count%s: %d close events %v by t=%v (state %s)", fp, len(closes), closes, x.Now(), f.rec.Sock.ReadyState())
		return
	}
	var ce Event
	for _, e := range f.rec.Events {
		if e.Name == "close" {
			ce = e
		}
	}
	if c.actor {
		// responsive client: the close is the application's, promptly
		if closes[0] != "forced close" {
			x.Fail("close-reason%s: %q at %v with a responsive client; expected forced close", fp, closes[0], ce.At)
		}
		if ce.At > sPingInterval+sPingTimeout {
			x.Fail("close-unbounded%s: closed only at %v", fp, ce.At)
		}
		if c.closer == "close-false" {
			// graceful: every message accepted (packetCreate) before the close was requested and not
			// discarded must have reached the client, in order, before the close packet / teardown
			got := map[string]bool{}
			for _, p := range f.got {
				got[string(p.Data)] = true
			}
			for d, at := range f.sendReturned {
				// only Sends that had returned before Close was called are "still buffered" for certain
				if at < f.closeCalled && !got[d] {
					x.Fail("buffered-lost%s: Send(%q) had returned before Close(false) was called, but the message never reached the client; client got %v", fp, d, fmtPkts(f.got))
				}
			}
		}
	} else {
		// silent client: bounded time (close timeout 30s, or next heartbeat deadline 45s)
		if ce.At > sPingInterval+sPingTimeout {
			x.Fail("close-unbounded%s: closed only at %v", fp, ce.At)
		}
	}
	// any request still outstanding after the close is a pending poll that was not released
	for _, r := range f.w.Resps {
		if r.Conn == nil && !r.Returned {
			x.Fail("poll-not-released%s: %s still outstanding after the session closed", fp, kindOf(r))
		}
	}
	if n := f.w.Srv.ClientsCount(); n != 0 {
		x.Fail("table-not-empty%s: ClientsCount=%d after the only session closed", fp, n)
	}
}

func flowCases(prop string, thorough bool) []flowCase {
	var out []flowCase
	kinds := []string{"polling", "websocket", "webtransport"}
	if thorough {
		kinds = append(kinds, "polling3")
	}
	for _, k := range kinds {
		switch prop {
		case "C01":
			out = append(out, flowCase{kind: k, actor: true, senders: []string{"A"}}, flowCase{kind: k, actor: true, senders: []string{"A", "B"}})
			out = append(out, flowCase{kind: k, actor: true, senders: []string{"A"}, closer: "close-false"})
			// without heartbeat traffic: a packet that misses its flush is never delivered
			out = append(out, flowCase{kind: k, actor: true, senders: []string{"A"}, noBeat: true}, flowCase{kind: k, actor: true, senders: []string{"A", "B"}, noBeat: true})
		case "C18":
			out = append(out, flowCase{kind: k, actor: true, senders: []string{"A"}, cb: true, nSends: 6, slowCb: true})
			out = append(out, flowCase{kind: k, actor: true, senders: []string{"A"}, cb: true}, flowCase{kind: k, actor: true, senders: []string{"A", "B"}, cb: true})
			out = append(out, flowCase{kind: k, actor: true, senders: []string{"A"}, cb: true, closer: "close-false"}, flowCase{kind: k, actor: true, senders: []string{"A"}, cb: true, closer: "close-true"})
		case "C12":
			for _, cl := range []string{"close-false", "close-true", "server-close"} {
				out = append(out, flowCase{kind: k, actor: true, senders: []string{"A"}, closer: cl})
				out = append(out, flowCase{kind: k, actor: false, senders: []string{"A"}, closer: cl})
				out = append(out, flowCase{kind: k, actor: true, closer: cl})
				out = append(out, flowCase{kind: k, actor: false, closer: cl})
			}
			if k == "polling" {
				// a revision-3 client that never polls again but keeps sending its heartbeat: a graceful close is still bounded
				out = append(out, flowCase{kind: "polling3", actor: false, senders: []string{"A"}, closer: "close-false", pinger: true})
			}
			for _, cl2 := range []string{"close-true", "server-close"} {
				out = append(out, flowCase{kind: k, actor: false, senders: []string{"A"}, closer: "close-false", closer2: cl2})
				out = append(out, flowCase{kind: k, actor: true, senders: []string{"A"}, closer: "close-false", closer2: cl2})
			}
		}
	}
	return out
}

func registerFlowUnits(prop string) {
	quick := map[string]bool{}
	for _, c := range flowCases(prop, false) {
		quick[c.id()] = true
	}
	for _, fc := range flowCases(prop, true) {
		fc := fc
		registerSharded(prop, "flow/"+strings.ReplaceAll(fc.id(), " ", "_"), !quick[fc.id()], 8, func(c *Ctx) {
			bound := Pick(c, 1, 2)
			maxDev := Pick(c, 4, 6)
			c.ExploreDev(fc.id(), bound, maxDev, flowBody(fc, prop))
			c.Sample(fc.id())
			c.Res.Distinct = 1
			c.Note("%s session, client %s, senders %v (2 sends each), closer %q: every interleaving with <=%d preemptions and <=%d context switches off the default schedule (DPOR)", fc.kind, map[bool]string{true: "actor", false: "silent"}[fc.actor], fc.senders, fc.closer, bound, maxDev)
		})
	}
}

func init() {
	registerFlowUnits("C01")
	registerFlowUnits("C18")
	registerFlowUnits("C12")
}

var _ = sort.Strings

// C12 shutdown: Server.Close / closing the HTTP server the engine is attached to, with n
// sessions of mixed transports (default schedule: the order in which the client table is
// ranged is not owned by the scheduler).
type failingListener struct{}

func (failingListener) Accept() (net.Conn, error) { return nil, errors.New("no network here") }
func (failingListener) Close() error              { return nil }
func (failingListener) Addr() net.Addr            { return &net.TCPAddr{} }

func init() {
	register("C12", "shutdown", false, func(c *Ctx) {
		kinds := []string{"polling-pending", "polling-idle", "polling-buffered", "websocket", "webtransport"}
		n := 0
		var rec func(cur []string)
		run := func(set []string, how string) {
			n++
			id := fmt.Sprintf("shutdown %s with sessions %v", how, set)
			c.Once(id, func(x *vsched.Exec) {
				o := sessOpts()
				hs := types.NewWebServer(nil)
				// a HTTP server of the kind Listen registers (never started: no real network in the bubble). Shutdown of a
				// started one waits for its active requests, i.e. for the pending polls only the engine can answer: the
				// sessions have to be told before the HTTP servers are shut down.
				httpSrv := &http.Server{}
				if f := reflect.ValueOf(hs).Elem().FieldByName("servers"); f.IsValid() {
					pp := (**types.Slice[any])(unsafe.Pointer(f.UnsafeAddr()))
					(*pp).Push(httpSrv)
				}
				shutBeforeClose := false
				hs.On("close", func(...any) {
					if err := httpSrv.Serve(failingListener{}); err == http.ErrServerClosed {
						shutBeforeClose = true
					}
				})
				srv := engine.Attach(hs, o)
				w := &World{X: x, ByID: map[string]*SockRec{}, actions: map[string]int{}, PostMsgs: map[*Resp][]string{}, EpilogueFrom: 1 << 30, Srv: srv, Handler: hs}
				w.hook()
				var polls []*Resp
				var wss []*WSClient
				var wts []*WTClient
				for _, k := range set {
					switch k {
					case "polling-pending", "polling-idle", "polling-buffered":
						pc := &PollClient{W: w, EIO: 4}
						r := pc.Get()
						x.Settle()
						pk, err := pc.DecodeResp(r)
						if err != nil || len(pk) == 0 {
							x.Fail("setup: handshake (%s)", id)
							return
						}
						open, _ := ParseOpen(pk[0])
						pc.Sid, _ = open["sid"].(string)
						if k == "polling-pending" {
							polls = append(polls, pc.Get())
							x.Settle()
						}
						if k == "polling-buffered" {
							rec := w.ByID[pc.Sid]
							vsched.GoNamed("app-send", func() { rec.Sock.Send(types.NewStringBufferString("buffered"), nil, nil) })
							x.Settle()
						}
					case "websocket":
						ws := w.DialWS(4, "", false, false, "")
						x.Settle()
						wss = append(wss, ws)
					case "webtransport":
						wc := w.DialWT(0)
						wc.Handshake()
						x.Settle()
						wts = append(wts, wc)
					}
				}
				if len(w.Socks) != len(set) {
					x.Fail("setup: %d sessions for %v", len(w.Socks), set)
					return
				}
				done := false
				vsched.GoNamed("shutdown", func() {
					w.BeginAction()
					if how == "server-close" {
						srv.Close()
					} else {
						hs.Close(nil)
					}
					done = true
				})
				x.Run(x.Now() + time.Second)
				fp := fmt.Sprintf("[%s n=%d]", how, len(set))
				if !done {
					x.Fail("shutdown-blocked%s: the call did not return: %v (%s)", fp, x.Blocked(), id)
				}
				if shutBeforeClose {
					x.Fail("shutdown-order%s: the HTTP servers had been shut down before the close event told the engine to close its sessions (Shutdown waits for the pending polls, which only the engine can answer) (%s)", fp, id)
				}
				for i, s := range w.Socks {
					if cr := s.CloseReasons(); len(cr) != 1 {
						x.Fail("shutdown-close-count[%s %s]: session #%d (%s) has %d close events %v, state %s (%s)", how, set[i], i, set[i], len(cr), cr, s.Sock.ReadyState(), id)
					} else if cr[0] != "forced close" {
						x.Fail("shutdown-close-reason[%s %s]: %q (%s)", how, set[i], cr[0], id)
					}
				}
				if nn := srv.ClientsCount(); nn != 0 || srv.Clients().Len() != 0 {
					x.Fail("shutdown-table%s: ClientsCount=%d table=%d after shutdown (%s)", fp, nn, srv.Clients().Len(), id)
				}
				for _, r := range polls {
					if !r.wrote || !r.Returned {
						x.Fail("shutdown-poll-not-released%s: a pending poll was not answered (%s)", fp, id)
					} else if pk, err := (&PollClient{EIO: 4}).DecodeResp(r); err != nil || len(pk) == 0 || (pk[len(pk)-1].Type != '1' && pk[len(pk)-1].Type != '6') {
						x.Fail("shutdown-poll-release-packet%s: pending poll released with %s (%s)", fp, fmtPkts(pk), id)
					}
				}
				for _, ws := range wss {
					if !ws.ServerClosed() {
						x.Fail("shutdown-conn-open%s: a websocket connection is still open (%s)", fp, id)
					}
				}
				for _, wc := range wts {
					if !wc.Closed() && !wc.Stream.closed {
						x.Fail("shutdown-conn-open%s: a webtransport session is still open (%s)", fp, id)
					}
				}
				for _, t := range x.Panics() {
					x.Fail("panic%s: %v (%s)", fp, t.Panic, id)
				}
				x.Outcome = fmt.Sprintf("%d closed", len(w.Socks))
			})
		}
		rec = func(cur []string) {
			for _, how := range []string{"server-close", "http-server-close"} {
				run(cur, how)
			}
			if len(cur) == Pick(c, 3, 4) {
				return
			}
			for _, k := range kinds {
				rec(append(append([]string{}, cur...), k))
			}
		}
		rec(nil)
		c.Res.Distinct = int64(n)
		c.Sample("shutdown http-server-close with sessions [polling-pending websocket webtransport]")
		c.Note("Server.Close and closing the types.HttpServer the engine is attached to, with every sequence of 0-%d sessions over {polling with a pending poll, idle polling, polling with a buffered message, websocket, webtransport}: each session exactly one close event with reason forced close, table and count empty, pending polls released with a close/noop packet, connections closed", Pick(c, 3, 4))
	})
}
