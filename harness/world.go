package harness

import (
	"bufio"
	"regexp"
	"bytes"
	"context"
	"errors"
	"fmt"
	"io"
	"net"
	"net/http"
	"net/http/httptest"
	"net/url"
	"sort"
	"strings"
	"time"
	"unsafe"

	"github.com/zishang520/engine.io-go-parser/packet"
	"github.com/zishang520/engine.io/v2/config"
	"github.com/zishang520/engine.io/v2/engine"
	"github.com/zishang520/engine.io/v2/types"
	wtgo "github.com/zishang520/webtransport-go"
	"verifrt/vsched"
)

// Event is one recorded server or socket event.
type Event struct {
	At    time.Duration
	Sid   string // "" for server-level events
	Name  string
	Arg   string // rendering of the interesting argument(s)
	State string // ReadyState of the session when the event fired
	Pkts  []Pkt  // flush: packets handed over; packet/packetCreate: the packet
	Seq    int    // index in World.Events
	Thread string // path of the scheduled thread that emitted it
}

func (e Event) String() string {
	return fmt.Sprintf("%v %s(%s) state=%s", e.At, e.Name, e.Arg, e.State)
}

func shortSid(s string) string {
	if len(s) > 4 {
		return s[:4]
	}
	return s
}

// SockRec is what the harness knows about one session.
type SockRec struct {
	Sock   engine.Socket
	Id     string
	Index  int
	Events []Event
}

// World is a real engine server plus recorders.
type World struct {
	X        *vsched.Exec
	Srv      engine.Server
	Handler  http.Handler
	WT       *wtgo.Server // webtransport-go server handed to the session handler (created on first use)
	Events   []Event
	Socks    []*SockRec
	ByID     map[string]*SockRec
	ConnErrs []string // code:message of connection_error events
	Resps    []*Resp
	actions      map[string]int // thread path of a harness-initiated action -> len(Events) when it began
	EpilogueFrom int            // len(Events) when the sequential epilogue started
	LateReqs     []*Resp        // requests issued after the session closed
	PostMsgs     map[*Resp][]string
	// OnConnection lets a scenario attach behaviour to new sessions (runs in the engine's thread).
	OnConnection func(s *SockRec)
	// OnMessage, if set, is called for each message event (engine thread).
	OnMessage func(s *SockRec, p Pkt)
	// OnEvent, if set, is called for every recorded session event (engine thread).
	OnEvent func(s *SockRec, e Event)
}

func dataToPkt(t byte, d any) Pkt {
	p := Pkt{Type: t}
	switch v := d.(type) {
	case nil:
	case *types.StringBuffer:
		p.Data = append([]byte(nil), v.Bytes()...)
	case *strings.Reader:
		// unread portion only; rendering
		b := make([]byte, v.Len())
		v.ReadAt(b, v.Size()-int64(v.Len()))
		p.Data = b
	case types.BufferInterface:
		p.Data = append([]byte(nil), v.Bytes()...)
		p.Binary = true
	case io.Reader:
		p.Binary = true
	}
	return p
}

var pktTypeByte = map[string]byte{"open": '0', "close": '1', "ping": '2', "pong": '3', "message": '4', "upgrade": '5', "noop": '6', "error": 'e'}

// NewWorld builds a server with the given options inside execution x.
func NewWorld(x *vsched.Exec, opts config.ServerOptionsInterface) *World {
	w := &World{X: x, ByID: map[string]*SockRec{}, actions: map[string]int{}, PostMsgs: map[*Resp][]string{}, EpilogueFrom: 1 << 30}
	w.Srv = engine.NewServer(opts)
	w.Handler = w.Srv
	w.hook()
	return w
}

func (w *World) hook() {
	w.Srv.On("connection", func(a ...any) {
		s := a[0].(engine.Socket)
		rec := &SockRec{Sock: s, Id: s.Id(), Index: len(w.Socks)}
		w.Socks = append(w.Socks, rec)
		w.ByID[rec.Id] = rec
		w.record(rec, "connection", "")
		for _, name := range []string{"packet", "packetCreate", "message", "heartbeat", "upgrading", "upgrade", "flush", "drain", "close", "error"} {
			name := name
			s.On(types.EventName(name), func(a ...any) { w.sockEvent(rec, name, a) })
		}
		if w.OnConnection != nil {
			w.OnConnection(rec)
		}
	})
	w.Srv.On("connection_error", func(a ...any) {
		if em, ok := a[0].(*types.ErrorMessage); ok && em.CodeMessage != nil {
			w.ConnErrs = append(w.ConnErrs, fmt.Sprintf("%d:%s", em.Code, em.Message))
		} else {
			w.ConnErrs = append(w.ConnErrs, fmt.Sprint(a...))
		}
	})
}

func (w *World) record(rec *SockRec, name, arg string, pkts ...Pkt) {
	e := Event{At: w.X.Now(), Sid: rec.Id, Name: name, Arg: arg, State: rec.Sock.ReadyState(), Pkts: pkts, Seq: len(w.Events)}
	if t := vsched.Self(); t != nil {
		e.Thread = t.Path
	}
	rec.Events = append(rec.Events, e)
	w.Events = append(w.Events, e)
	if w.OnEvent != nil {
		w.OnEvent(rec, e)
	}
}

func (w *World) sockEvent(rec *SockRec, name string, a []any) {
	switch name {
	case "packet", "packetCreate":
		pk := pktOf(a[0])
		w.record(rec, name, pk.String(), pk)
	case "message":
		pk := dataToPkt('4', a[0])
		w.record(rec, name, pk.String(), pk)
		if w.OnMessage != nil {
			w.OnMessage(rec, pk)
		}
	case "flush":
		pks := pktsOf(a[0])
		w.record(rec, name, fmtPkts(pks), pks...)
	case "close":
		arg := fmt.Sprint(a[0])
		w.record(rec, name, arg)
	case "upgrade", "upgrading":
		arg := ""
		if t, ok := a[0].(interface{ Name() string }); ok {
			arg = t.Name()
		}
		w.record(rec, name, arg)
	default:
		w.record(rec, name, "")
	}
}

// BeginAction marks the calling thread as the root of a harness-initiated action.
func (w *World) BeginAction() {
	if t := vsched.Self(); t != nil {
		w.actions[t.Path] = len(w.Events)
	}
}

// actionOf returns when the action that thread path belongs to began.
func (w *World) actionOf(path string) (int, bool) {
	for p := path; p != ""; {
		if v, ok := w.actions[p]; ok {
			return v, true
		}
		i := strings.LastIndexByte(p, '.')
		if i < 0 {
			break
		}
		p = p[:i]
	}
	return 0, false
}

// CloseReason returns the reasons of all close events of the session.
func (s *SockRec) CloseReasons() []string {
	var out []string
	for _, e := range s.Events {
		if e.Name == "close" {
			out = append(out, e.Arg)
		}
	}
	return out
}

// Messages returns the payloads of the session's message events in order.
func (s *SockRec) Messages() []Pkt {
	var out []Pkt
	for _, e := range s.Events {
		if e.Name == "message" {
			out = append(out, e.Pkts[0])
		}
	}
	return out
}

func (s *SockRec) Count(name string) int {
	n := 0
	for _, e := range s.Events {
		if e.Name == name {
			n++
		}
	}
	return n
}

// ---- HTTP plumbing ----

// Resp records everything about one request/response exchange.
type Resp struct {
	Desc        string
	Req         *http.Request // the request as the handler received it
	Code        int
	Hdr         http.Header
	Body        []byte
	HeaderCalls int
	WriteCalls  int
	Returned    bool // handler returned
	ReturnedAt  time.Duration
	Panic       any
	Conn        *Pipe // set when hijacked
	AllowHijack bool
	BodyRead    *countingBody
	cancel      context.CancelFunc
	done        <-chan struct{}
	hdr         http.Header
	wrote       bool
	WroteSeq    int // len(World.Events) when the response was written
	WroteAt     time.Duration
	aborted     bool
	w           *World
}

type rw struct{ r *Resp }

func (w rw) Header() http.Header { return w.r.hdr }
func (w rw) WriteHeader(code int) {
	vsched.WaitFor(uintptr(unsafe.Pointer(w.r)), "respond", nil)
	w.r.HeaderCalls++
	if !w.r.wrote {
		w.r.wrote = true
		w.r.WroteSeq = len(w.r.w.Events)
		w.r.WroteAt = w.r.w.X.Now()
		w.r.Code = code
		w.r.Hdr = w.r.hdr.Clone()
	}
}
func (w rw) Write(b []byte) (int, error) {
	if !w.r.wrote {
		w.WriteHeader(200)
		w.r.HeaderCalls-- // implicit header, not an explicit call
	}
	w.r.WriteCalls++
	w.r.Body = append(w.r.Body, b...)
	return len(b), nil
}
func (w rw) Flush() {}

type rwHijack struct{ rw }

func (w rwHijack) Hijack() (net.Conn, *bufio.ReadWriter, error) {
	p := NewPipe()
	w.r.Conn = p
	c := &srvConn{p: p}
	return c, bufio.NewReadWriter(bufio.NewReader(c), bufio.NewWriter(c)), nil
}

// countingBody is a request body that counts what the server consumed; with
// Endless it never reports EOF (unknown-length bodies far above any limit).
type countingBody struct {
	data    []byte
	off     int
	Read_   int64
	Endless bool
	Closed  bool
	Cap     int64 // endless: hard stop (reported as an oracle failure by the caller)
	// SlowUntil: the first Read blocks until this virtual instant (an upload in progress)
	SlowUntil time.Duration
	Started   bool // the server began reading the body
}

func (b *countingBody) Read(p []byte) (int, error) {
	vsched.Tick()
	if !b.Started {
		b.Started = true
		if b.SlowUntil > 0 {
			vsched.SleepUntil(b.SlowUntil)
		}
	}
	if b.Endless {
		if b.Cap > 0 && b.Read_ >= b.Cap {
			return 0, io.EOF
		}
		for i := range p {
			p[i] = 'a'
		}
		b.Read_ += int64(len(p))
		return len(p), nil
	}
	if b.off >= len(b.data) {
		return 0, io.EOF
	}
	n := copy(p, b.data[b.off:])
	b.off += n
	b.Read_ += int64(n)
	return n, nil
}
func (b *countingBody) Close() error { b.Closed = true; return nil }

// ReqOpt tweaks a request.
type ReqOpt struct {
	Hdr           map[string]string
	Body          []byte
	UnknownLength bool // ContentLength = -1
	DeclLen       int64 // >0: the Content-Length the request announces (whatever the body holds)
	SlowUntil     time.Duration
	EndlessBody   bool
	Hijackable    bool
	RespHdr       map[string]string // headers an outer handler has already put on the response
}

// Request starts a handler thread for the request and returns its recorder; it
// does not run the scheduler.
func (w *World) Request(method, target string, o ReqOpt) *Resp {
	r := &Resp{Desc: method + " " + sidMask.ReplaceAllString(target, "sid=*"), hdr: http.Header{}, w: w}
	for k, v := range o.RespHdr {
		r.hdr.Set(k, v)
	}
	var body io.Reader
	if o.Body != nil || o.EndlessBody {
		r.BodyRead = &countingBody{data: o.Body, Endless: o.EndlessBody, Cap: 64 << 20, SlowUntil: o.SlowUntil}
		body = r.BodyRead
	}
	req := httptest.NewRequest(method, target, body)
	if body != nil {
		req.ContentLength = int64(len(o.Body))
		if o.UnknownLength || o.EndlessBody {
			req.ContentLength = -1
		}
		if o.DeclLen > 0 {
			req.ContentLength = o.DeclLen
		}
	}
	for k, v := range o.Hdr {
		req.Header.Set(k, v)
	}
	ctx, cancel := context.WithCancel(context.Background())
	r.cancel = func() {
		cancel()
		vsched.NoteClosed(ctx.Done())
	}
	r.done = ctx.Done()
	req = req.WithContext(ctx)
	r.Req = req
	var writer http.ResponseWriter = rw{r}
	if o.Hijackable {
		writer = rwHijack{rw{r}}
	}
	w.Resps = append(w.Resps, r)
	h := w.Handler
	vsched.GoNamed("http "+r.Desc, func() {
		defer func() {
			if p := recover(); p != nil {
				r.Panic = p
			}
			vsched.WaitFor(uintptr(unsafe.Pointer(r)), "handler-return", nil)
			r.Returned = true
			r.ReturnedAt = w.X.Now()
			r.cancel() // net/http cancels the request context when the handler returns
		}()
		w.BeginAction()
		h.ServeHTTP(writer, req)
	})
	return r
}

var sidMask = regexp.MustCompile(`sid=[A-Za-z0-9_-]+`)

// Abort simulates the peer going away while the request is outstanding.
func (r *Resp) Abort() {
	vsched.WaitFor(uintptr(unsafe.Pointer(r)), "abort", nil)
	r.aborted = true
	r.cancel()
}

// Wait parks the calling thread until the response has been written.
func (r *Resp) Wait() {
	vsched.WaitFor(uintptr(unsafe.Pointer(r)), "response", func() bool { return r.wrote || r.Returned })
}

// WaitReturn parks the calling thread until the handler has returned.
func (r *Resp) WaitReturn() {
	vsched.WaitFor(uintptr(unsafe.Pointer(r)), "handler-return", func() bool { return r.Returned })
}

func q(kv ...string) string {
	v := url.Values{}
	for i := 0; i+1 < len(kv); i += 2 {
		v.Add(kv[i], kv[i+1])
	}
	return v.Encode()
}

// ---- in-memory duplex connection for hijacked requests ----

// Pipe is the byte pipe between the server's net.Conn and the harness client.
type Pipe struct {
	toSrv       []byte // client -> server, unread
	toCli       []byte // server -> client, everything written
	cliRead     int    // how much of toCli the client has parsed
	srvClosed   bool   // server closed its end
	cliClosed   bool   // client closed its end (server reads see EOF after draining)
	SrvWrites   int
	SrvReadChunk int // >0: the server's reads get at most this many bytes at a time
	closedAt    time.Duration
	WriteErrors int
}

func NewPipe() *Pipe { return &Pipe{} }

type srvConn struct{ p *Pipe }

type fakeAddr string

func (a fakeAddr) Network() string { return "tcp" }
func (a fakeAddr) String() string  { return string(a) }

func (c *srvConn) Read(b []byte) (int, error) {
	p := c.p
	vsched.WaitFor(uintptr(unsafe.Pointer(p)), "conn-read", func() bool { return len(p.toSrv) > 0 || p.cliClosed || p.srvClosed })
	if p.srvClosed {
		return 0, &net.OpError{Op: "read", Net: "tcp", Err: net.ErrClosed}
	}
	if len(p.toSrv) == 0 {
		return 0, io.EOF
	}
	if p.SrvReadChunk > 0 && len(b) > p.SrvReadChunk {
		b = b[:p.SrvReadChunk]
	}
	n := copy(b, p.toSrv)
	p.toSrv = p.toSrv[n:]
	return n, nil
}

func (c *srvConn) Write(b []byte) (int, error) {
	p := c.p
	vsched.WaitFor(uintptr(unsafe.Pointer(p)), "conn-write", nil)
	if p.srvClosed {
		p.WriteErrors++
		return 0, &net.OpError{Op: "write", Net: "tcp", Err: net.ErrClosed}
	}
	if p.cliClosed {
		p.WriteErrors++
		return 0, &net.OpError{Op: "write", Net: "tcp", Err: errors.New("broken pipe")}
	}
	p.SrvWrites++
	p.toCli = append(p.toCli, b...)
	return len(b), nil
}

func (c *srvConn) Close() error {
	if c.p.srvClosed {
		return &net.OpError{Op: "close", Net: "tcp", Err: net.ErrClosed}
	}
	c.p.srvClosed = true
	if x := vsched.Cur(); x != nil {
		c.p.closedAt = x.Now()
	}
	return nil
}
func (c *srvConn) LocalAddr() net.Addr                { return fakeAddr("192.0.2.2:80") }
func (c *srvConn) RemoteAddr() net.Addr               { return fakeAddr("192.0.2.1:1234") }
func (c *srvConn) SetDeadline(t time.Time) error      { return nil }
func (c *srvConn) SetReadDeadline(t time.Time) error  { return nil }
func (c *srvConn) SetWriteDeadline(t time.Time) error { return nil }

// ClientWrite appends bytes the client sends (a scheduling point when called from a thread).
func (p *Pipe) ClientWrite(b []byte) {
	vsched.WaitFor(uintptr(unsafe.Pointer(p)), "client-write", nil)
	p.toSrv = append(p.toSrv, b...)
}

// ClientClose is an abrupt disconnect of the peer.
func (p *Pipe) ClientClose() {
	vsched.WaitFor(uintptr(unsafe.Pointer(p)), "client-close", nil)
	p.cliClosed = true
}

// ---- helpers ----

func sortedStrings(s []string) []string {
	out := append([]string(nil), s...)
	sort.Strings(out)
	return out
}

func bodyPreview(b []byte) string {
	if len(b) > 80 {
		return fmt.Sprintf("%q…(%d bytes)", b[:80], len(b))
	}
	return fmt.Sprintf("%q", b)
}

var _ = bytes.Equal

func peekReader(r io.Reader) (data []byte, binary bool) {
	switch v := r.(type) {
	case nil:
		return nil, false
	case *types.StringBuffer:
		return append([]byte(nil), v.Bytes()...), false
	case *strings.Reader:
		b := make([]byte, v.Len())
		v.ReadAt(b, v.Size()-int64(v.Len()))
		return b, false
	case types.BufferInterface:
		return append([]byte(nil), v.Bytes()...), true
	case *bytes.Reader:
		b := make([]byte, v.Len())
		v.ReadAt(b, v.Size()-int64(v.Len()))
		return b, true
	case *bytes.Buffer:
		return append([]byte(nil), v.Bytes()...), true
	}
	return nil, true
}

func pktOf(a any) Pkt {
	p, ok := a.(*packet.Packet)
	if !ok || p == nil {
		return Pkt{Type: '?'}
	}
	t, ok := pktTypeByte[string(p.Type)]
	if !ok {
		t = '?'
	}
	d, bin := peekReader(p.Data)
	return Pkt{Type: t, Data: d, Binary: bin}
}

func pktsOf(a any) []Pkt {
	ps, ok := a.([]*packet.Packet)
	if !ok {
		return nil
	}
	out := make([]Pkt, len(ps))
	for i, p := range ps {
		out[i] = pktOf(p)
	}
	return out
}

func uintptrOf(p *Pipe) uintptr { return uintptr(unsafe.Pointer(p)) }
