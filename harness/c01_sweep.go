package harness

import (
	"bytes"
	"fmt"
	"regexp"
	"strconv"
	"strings"
	"time"

	"github.com/zishang520/engine.io-go-parser/packet"
	"github.com/zishang520/engine.io/v2/config"
	"github.com/zishang520/engine.io/v2/types"
	"verifrt/vsched"
)

// E2 sweep shared by C01 (what the client receives equals what was sent, on
// every carrier / revision / base64 mode / batching / compression / pre-encoded
// option) and C16 (every poll response is well-formed). Default schedule only;
// the interleavings are explored by the flow units.

type outCarrier struct {
	kind string // polling | jsonp | websocket | webtransport
	eio  int
	b64  bool
}

func (k outCarrier) String() string { return fmt.Sprintf("%s/EIO%d/b64=%v", k.kind, k.eio, k.b64) }

type sendSpec struct {
	pay int    // index into payloads
	opt string // nil | nocompress | compress | pre
}

var sweepPayloads = []Pkt{
	Msg(""),
	Msg("a"),
	Msg("€😀\n\\n\"q\"'"),
	Msg("</script><!--  &"),
	Msg(strings.Repeat("x", 2000)),
	Msg(strings.Repeat("ab€", 24000)), // > 64 KiB
	MsgBin([]byte{}),
	MsgBin([]byte{0xFF, 0x1E, 0x00, '4', 'b'}),
	MsgBin(wtPayload(4097, true)),
	MsgBin(wtPayload(70*1024, true)),
}

func (s sendSpec) String() string { return fmt.Sprintf("%s/%s", sweepPayloads[s.pay], s.opt) }

type sweepCfg struct {
	car       outCarrier
	httpComp  int    // -1 nil, else threshold
	deflate   int    // -1 nil, else threshold (perMessageDeflate)
	wsDeflate bool   // client offers permessage-deflate
	accept    string // Accept-Encoding of the polls ("" = absent)
	accept2   string // if set: Accept-Encoding from the second poll on ("-" = header absent)
	pollFirst bool   // a poll is pending before the first Send
	j         string // JSONP index parameter
	sends     []sendSpec
}

func (c sweepCfg) id() string {
	var ss []string
	for _, s := range c.sends {
		ss = append(ss, s.String())
	}
	ae := c.accept
	if c.accept2 != "" {
		ae += " then " + c.accept2
	}
	return fmt.Sprintf("%s comp=%d deflate=%d/%v AE=%q pollFirst=%v j=%q sends=[%s]", c.car, c.httpComp, c.deflate, c.wsDeflate, ae, c.pollFirst, c.j, strings.Join(ss, " "))
}

// acceptNames: the codings an Accept-Encoding value names (token match, q=0 excluded).
func acceptNames(v string) map[string]bool {
	out := map[string]bool{}
	for _, part := range strings.Split(v, ",") {
		f := strings.Split(part, ";")
		name := strings.ToLower(strings.TrimSpace(f[0]))
		ok := true
		for _, p := range f[1:] {
			p = strings.TrimSpace(p)
			if strings.HasPrefix(strings.ToLower(p), "q=") {
				if q, err := strconv.ParseFloat(p[2:], 64); err == nil && q == 0 {
					ok = false
				}
			}
		}
		if name != "" && ok {
			out[name] = true
		}
	}
	return out
}

// aeAllows: the Accept-Encoding header allows the coding - it names it with a non-zero quality, or carries a
// wildcard with a non-zero quality and does not refuse the coding explicitly (q=0).
func aeAllows(header, enc string) bool {
	named := acceptNames(header)
	if named[enc] {
		return true
	}
	if !named["*"] {
		return false
	}
	for _, part := range strings.Split(header, ",") {
		if strings.EqualFold(strings.TrimSpace(strings.Split(part, ";")[0]), enc) {
			return false // listed, but not accepted: refused with q=0
		}
	}
	return true
}

var jsonpShape = regexp.MustCompile(`^___eio\[(\d*)\]\(("(?:[^"\\]|\\.)*")\);$`)

func digitsOf(s string) string {
	var b strings.Builder
	for _, r := range s {
		if r >= '0' && r <= '9' {
			b.WriteRune(r)
		}
	}
	return b.String()
}

func sweepBody(cfg sweepCfg, prop string) vsched.Body {
	return func(x *vsched.Exec) {
		o := config.DefaultServerOptions()
		o.SetAllowEIO3(true)
		o.SetTransports(types.NewSet("polling", "websocket", "webtransport"))
		if cfg.httpComp < 0 {
			o.SetHttpCompression(nil)
		} else {
			o.SetHttpCompression(&types.HttpCompression{Threshold: cfg.httpComp})
		}
		if cfg.deflate >= 0 {
			o.SetPerMessageDeflate(&types.PerMessageDeflate{Threshold: cfg.deflate})
		}
		w := NewWorld(x, o)
		if cfg.httpComp < 0 {
			// Construct overlays the defaults (threshold 1024) when the option is nil: the effective value counts
			if hc := w.Srv.Opts().HttpCompression(); hc != nil {
				cfg.httpComp = hc.Threshold
			}
		}
		car := cfg.car
		fp := fmt.Sprintf("[%s eio%d b64=%v]", car.kind, car.eio, car.b64)
		// revision-3 binary payloads (polling without b64, a binary packet in the batch) carrying non-ASCII
		// text are mis-encoded by the parser dependency (each UTF-8 byte is encoded again while the length
		// prefix counts the original bytes): failures of such executions get a class of their own
		v3bin := false
		if car.kind == "polling" && car.eio == 3 && !car.b64 {
			bin, nonASCII := false, false
			for _, sp := range cfg.sends {
				p := sweepPayloads[sp.pay]
				bin = bin || p.Binary
				nonASCII = nonASCII || (!p.Binary && !isASCII(p.Data))
			}
			v3bin = bin && nonASCII
		}
		fail := func(format string, a ...any) {
			msg := fmt.Sprintf(format, a...)
			if v3bin {
				msg = "v3-binary-payload-non-ascii-text[polling eio3 b64=false]: " + msg
			}
			x.Fail("%s", msg)
		}
		var pc *PollClient
		var ws *WSClient
		var wc *WTClient
		var polls []*Resp
		var rec *SockRec
		// ---- open ----
		switch car.kind {
		case "polling", "jsonp":
			pc = &PollClient{W: w, EIO: car.eio, B64: car.b64}
			if car.kind == "jsonp" {
				pc.JSONP = cfg.j
				if pc.JSONP == "" {
					pc.JSONP = "0"
				}
			}
			if cfg.accept != "" {
				pc.Hdr = map[string]string{"Accept-Encoding": cfg.accept}
			}
			r := pc.Get()
			x.Settle()
			polls = append(polls, r)
			pk, err := pc.DecodeResp(r)
			if err != nil || len(pk) == 0 {
				fail("sweep-setup%s: handshake: %v status %d %s (%s)", fp, err, r.Code, bodyPreview(r.Body), cfg.id())
				return
			}
			open, err := ParseOpen(pk[0])
			if err != nil {
				fail("sweep-setup%s: %v", fp, err)
				return
			}
			pc.Sid, _ = open["sid"].(string)
		case "websocket":
			ws = w.DialWS(car.eio, "", car.b64, cfg.wsDeflate, "")
			x.Settle()
			if !ws.Ready() {
				fail("sweep-setup%s: websocket refused %d", fp, ws.Resp.Code)
				return
			}
		case "webtransport":
			wc = w.DialWT(0)
			wc.Handshake()
			x.Settle()
		}
		if len(w.Socks) != 1 {
			fail("sweep-setup%s: %d sessions after the handshake (%s)", fp, len(w.Socks), cfg.id())
			return
		}
		rec = w.Socks[0]
		if pc != nil && cfg.pollFirst {
			polls = append(polls, pc.Get())
			x.Settle()
		}
		// ---- the application sends ----
		var sent []Pkt
		for _, s := range cfg.sends {
			sent = append(sent, sweepPayloads[s.pay])
		}
		vsched.GoNamed("app", func() {
			// one options object (and so one pre-encoded frame buffer) per payload, reused by every send of
			// that payload - the way an application broadcasts one pre-encoded packet to many recipients
			preShared := map[int]*packet.Options{}
			for _, s := range cfg.sends {
				p := sweepPayloads[s.pay]
				var data interface {
					Read([]byte) (int, error)
				}
				if p.Binary {
					data = types.NewBytesBuffer(append([]byte(nil), p.Data...))
				} else {
					data = types.NewStringBufferString(string(p.Data))
				}
				var opts *packet.Options
				switch s.opt {
				case "nocompress":
					opts = &packet.Options{Compress: false}
				case "compress":
					opts = &packet.Options{Compress: true}
				case "pre":
					if o, ok := preShared[s.pay]; ok {
						opts = o
						break
					}
					// the frame a websocket/webtransport peer expects for this packet (as socket.io pre-encodes it)
					var fd []byte
					var fbin bool
					if car.eio == 4 {
						fd, fbin = EncodeFrame4(p, car.b64)
					} else {
						fd, fbin = EncodeFrame3(p, car.b64)
					}
					opts = &packet.Options{Compress: true}
					if fbin {
						opts.WsPreEncodedFrame = types.NewBytesBuffer(fd)
					} else {
						opts.WsPreEncodedFrame = types.NewStringBufferString(string(fd))
					}
					preShared[s.pay] = opts
				}
				rec.Sock.Send(data, opts, nil)
			}
		})
		x.Settle()
		// ---- the client reads ----
		var got []Pkt
		switch {
		case pc != nil:
			for i := 0; i < len(cfg.sends)+3; i++ {
				if n := len(polls); n > 0 && !polls[n-1].wrote {
					// the pending poll was not answered although packets are buffered
					break
				}
				if countMsgs(polls, pc) >= len(sent) {
					break
				}
				if cfg.accept2 != "" && len(polls) >= 2 {
					if cfg.accept2 == "-" {
						pc.Hdr = nil
					} else {
						pc.Hdr = map[string]string{"Accept-Encoding": cfg.accept2}
					}
				}
				polls = append(polls, pc.Get())
				x.Settle()
			}
			for _, r := range polls[1:] {
				if !r.wrote {
					continue
				}
				if enc := r.Hdr.Get("Content-Encoding"); enc != "" && prop == "C01" && !aeAllows(r.Req.Header.Get("Accept-Encoding"), enc) {
					// a client can only undo a content coding it offered
					fail("response-coding-not-offered[%s %s]: the response is coded with %q, the request offered %q: the client cannot recover the messages (%s)", car.kind, enc, enc, r.Req.Header.Get("Accept-Encoding"), cfg.id())
				}
				if (car.b64 || car.eio == 4) && strings.HasPrefix(r.Hdr.Get("Content-Type"), "application/octet-stream") {
					fail("binary-body-in-base64-mode%s: binary payload sent to a client that cannot take one (%s)", fp, cfg.id())
				}
				pk, err := pc.DecodeResp(r)
				if err != nil {
					fail("response-undecodable%s: %v; status %d headers %v body %s (%s)", fp, err, r.Code, r.Hdr, bodyPreview(r.Body), cfg.id())
					return
				}
				for _, p := range pk {
					if p.Type == '4' {
						got = append(got, p)
					}
				}
			}
		case ws != nil:
			pk, err := ws.Pkts()
			if car.b64 {
				for _, f := range ws.Frames {
					if f.Op == 2 {
						fail("binary-frame-in-base64-mode%s: a client that asked for base64 (b64=1) received a binary frame of %d bytes (%s)", fp, len(f.Data), cfg.id())
						break
					}
				}
			}
			if err != nil {
				fail("frame-undecodable%s: %v (%s)", fp, err, cfg.id())
				return
			}
			for _, p := range pk {
				if p.Type == '4' {
					got = append(got, p)
				}
			}
		case wc != nil:
			pk, err := wc.Pkts()
			if err != nil {
				fail("frame-undecodable%s: %v (%s)", fp, err, cfg.id())
				return
			}
			for _, p := range pk {
				if p.Type == '4' {
					got = append(got, p)
				}
			}
		}
		for _, t := range x.Panics() {
			fail("panic%s: thread %s: %v (%s)", fp, t.Name, t.Panic, cfg.id())
		}
		optset := map[string]bool{}
		for _, s := range cfg.sends {
			optset[s.opt] = true
		}
		cls := fmt.Sprintf("[%s eio%d b64=%v opts=%s n=%d]", car.kind, car.eio, car.b64, strings.Join(sortedKeys(optset), "+"), len(cfg.sends))
		if prop == "C01" {
			// base64 mode turns a binary message into its base64 text form: the conformant client decodes it back to binary
			if !pktsEqual(got, sent) {
				fail("outbound%s: sent %s, client received %s; session %s close=%v (%s)", cls, fmtPkts(sent), fmtPkts(got), rec.Sock.ReadyState(), rec.CloseReasons(), cfg.id())
			}
			if rec.Count("close") != 0 {
				fail("outbound-closed%s: session closed with %v while only sending (%s)", cls, rec.CloseReasons(), cfg.id())
			}
			x.Outcome = fmt.Sprintf("%d received", len(got))
			return
		}
		// ---- C16: every poll response ----
		var flushes [][]Pkt
		for _, e := range rec.Events {
			if e.Name == "flush" {
				flushes = append(flushes, e.Pkts)
			}
		}
		// did a packet of the k-th hand-off ask for compression?
		requestedBy := make([]bool, len(flushes))
		{
			mi := 0
			for k, f := range flushes {
				for _, p := range f {
					if p.Type != '4' {
						requestedBy[k] = true // the engine's own packets (open, ...) use the default options
						continue
					}
					if mi < len(cfg.sends) && cfg.sends[mi].opt != "nocompress" {
						requestedBy[k] = true
					}
					mi++
				}
			}
		}
		fi := 0
		compressed := 0
		for ri, r := range polls {
			if !r.wrote {
				continue
			}
			what := fmt.Sprintf("response #%d of %s", ri, cfg.id())
			if r.Code != 200 {
				fail("poll-status%s: status %d for %s", fp, r.Code, what)
				continue
			}
			if r.HeaderCalls > 1 || !r.Returned {
				fail("poll-response-count%s: %d WriteHeader calls, handler returned=%v for %s", fp, r.HeaderCalls, r.Returned, what)
			}
			if cl := r.Hdr.Get("Content-Length"); cl != strconv.Itoa(len(r.Body)) {
				fail("content-length%s: Content-Length %q, %d bytes sent (%s)", fp, cl, len(r.Body), what)
			}
			body, err := ContentDecode(r)
			enc := r.Hdr.Get("Content-Encoding")
			if err != nil {
				fail("content-encoding[%s %s]: body does not decode under Content-Encoding %q as HTTP defines it: %v (%s)", car.kind, enc, enc, err, what)
				continue
			}
			pk, err := pc.DecodeBody(body, r.Hdr.Get("Content-Type"))
			if err != nil {
				fail("payload-undecodable%s: %v: %s (%s)", fp, err, bodyPreview(body), what)
				continue
			}
			// which hand-off is this?
			var batch []Pkt
			if ri == 0 {
				// the handshake response: the open packet (handed over before the session is announced,
				// so its flush event cannot be observed); checked in detail by C06
				if len(pk) == 0 || pk[0].Type != '0' {
					fail("payload-mismatch%s: handshake response decodes to %s (%s)", fp, fmtPkts(pk), what)
				}
				batch = pk
			} else if fi < len(flushes) && len(pk) >= len(flushes[fi]) && pktsEqual(pk[:len(flushes[fi])], flushes[fi]) {
				batch = flushes[fi]
				fi++
				rest := pk[len(batch):]
				if len(rest) > 0 && !(len(rest) == 1 && rest[0].Type == '1') {
					fail("payload-extra%s: response carries %s after the batch %s (%s)", fp, fmtPkts(rest), fmtPkts(batch), what)
				}
			} else if len(pk) == 1 && (pk[0].Type == '6' || pk[0].Type == '1') && len(pk[0].Data) == 0 {
				// the transport's own noop / close
			} else {
				exp := "none left"
				if fi < len(flushes) {
					exp = fmtPkts(flushes[fi])
				}
				fail("payload-mismatch%s: response decodes to %s, the batch handed to the transport for this cycle was %s (%s)", fp, fmtPkts(pk), exp, what)
				continue
			}
			// content type
			ct := r.Hdr.Get("Content-Type")
			isBinaryBody := car.kind == "polling" && car.eio == 3 && !car.b64 && anyBinary(pk)
			switch {
			case car.kind == "jsonp":
				if !strings.HasPrefix(ct, "text/javascript") && !strings.HasPrefix(ct, "text/plain") {
					fail("content-type%s: %q for a JSONP response (%s)", fp, ct, what)
				}
			case isBinaryBody:
				if ct != "application/octet-stream" {
					fail("content-type%s: %q for a binary payload (%s)", fp, ct, what)
				}
			default:
				if !strings.HasPrefix(ct, "text/plain") {
					fail("content-type%s: %q for a text payload (%s)", fp, ct, what)
				}
			}
			// compression policy
			if enc != "" {
				compressed++
				reqAE := r.Req.Header.Get("Accept-Encoding")
				named := map[string]bool{enc: aeAllows(reqAE, enc)}
				requested := batch != nil && (ri == 0 || requestedBy[fi-1])
				switch {
				case cfg.httpComp < 0:
					fail("compressed-when-disabled[%s %s]: Content-Encoding %q with HTTP compression disabled (%s)", car.kind, enc, enc, what)
				case !named[enc]:
					fail("compressed-unnamed-coding[%s %s AE=%q]: Content-Encoding %q is not a coding the request's Accept-Encoding %q names (%s)", car.kind, enc, reqAE, enc, reqAE, what)
				case len(body) < cfg.httpComp:
					fail("compressed-below-threshold[%s %s]: %d-byte body compressed, threshold %d (%s)", car.kind, enc, len(body), cfg.httpComp, what)
				case batch != nil && !requested:
					fail("compressed-unrequested[%s %s]: no packet of the batch asked for compression (%s)", car.kind, enc, what)
				}
			}
			// JSONP shape
			if car.kind == "jsonp" {
				m := jsonpShape.FindSubmatch(body)
				if m == nil {
					fail("jsonp-shape%s: body is not ___eio[<digits>](<one JSON string literal>); : %s (%s)", fp, bodyPreview(body), what)
				} else {
					if string(m[1]) != digitsOf(pc.JSONP) {
						fail("jsonp-index[j=%q]: response index %q, digits of j %q (%s)", pc.JSONP, m[1], digitsOf(pc.JSONP), what)
					}
					lit := m[2]
					if bytes.ContainsAny(lit, "<>") || bytes.Contains(lit, []byte(" ")) || bytes.Contains(lit, []byte(" ")) {
						fail("jsonp-unsafe-literal%s: the literal contains a raw <, >, U+2028 or U+2029: %s (%s)", fp, bodyPreview(lit), what)
					}
				}
			}
		}
		x.Outcome = fmt.Sprintf("%d responses, %d compressed", len(polls), compressed)
	}
}

func anyBinary(ps []Pkt) bool {
	for _, p := range ps {
		if p.Binary {
			return true
		}
	}
	return false
}

func countMsgs(polls []*Resp, pc *PollClient) int {
	n := 0
	for _, r := range polls[1:] {
		if !r.wrote {
			continue
		}
		pk, _ := pc.DecodeResp(r)
		for _, p := range pk {
			if p.Type == '4' {
				n++
			}
		}
	}
	return n
}

func allCarriers() []outCarrier {
	var out []outCarrier
	for _, eio := range []int{4, 3} {
		for _, b64 := range []bool{false, true} {
			out = append(out, outCarrier{"polling", eio, b64}, outCarrier{"websocket", eio, b64})
		}
		out = append(out, outCarrier{"jsonp", eio, eio == 3}) // a conformant JSONP client asks for base64 on revision 3
	}
	out = append(out, outCarrier{"webtransport", 4, false})
	return out
}

func init() {
	for _, prop := range []string{"C01", "C16"} {
		prop := prop
		for _, car := range allCarriers() {
			car := car
			if prop == "C16" && car.kind != "polling" && car.kind != "jsonp" {
				continue
			}
			register(prop, "sweep/"+car.String(), false, func(c *Ctx) {
				opts := []string{"nil", "nocompress"}
				if car.kind == "websocket" || car.kind == "webtransport" {
					opts = append(opts, "pre")
				}
				var kinds []sendSpec
				for pi := range sweepPayloads {
					for _, o := range opts {
						kinds = append(kinds, sendSpec{pi, o})
					}
				}
				small := []sendSpec{}
				for _, k := range kinds {
					if k.pay != 5 && k.pay != 9 && k.pay != 8 {
						small = append(small, k)
					}
				}
				n := 0
				run := func(sends []sendSpec) {
					pfs := []bool{false}
					if car.kind == "polling" || car.kind == "jsonp" {
						pfs = []bool{false, true}
					}
					for _, pf := range pfs {
						cfg := sweepCfg{car: car, httpComp: 1024, deflate: -1, pollFirst: pf, accept: "gzip", sends: sends, j: "7"}
						n++
						c.Once(cfg.id(), sweepBody(cfg, prop))
						if n%301 == 1 {
							c.Sample(cfg.id())
						}
					}
				}
				for _, a := range kinds {
					run([]sendSpec{a})
				}
				for _, a := range kinds {
					for _, b := range small {
						run([]sendSpec{a, b})
						if a.pay == 5 || a.pay == 8 || a.pay == 9 {
							run([]sendSpec{b, a})
						}
					}
				}
				if c.Thorough() {
					for _, a := range small {
						for _, b := range small {
							for _, d := range small {
								run([]sendSpec{a, b, d})
							}
						}
					}
				} else {
					// three and four sends: batches [first][rest] with mixed options
					for i, a := range small {
						b, d := small[(i*7+3)%len(small)], small[(i*5+1)%len(small)]
						run([]sendSpec{a, b, d})
						run([]sendSpec{a, b, d, small[(i*3+2)%len(small)]})
					}
				}
				c.Res.Distinct = int64(n)
				c.Note("send sequences of length 1-2 (all pairs; thorough: all triples of the small payloads) over 10 payloads (text \"\", ascii, multi-byte, script-breaking, 2000 B, >64 KiB; binary empty, separator bytes, 4097 B, 70 KiB) x per-packet options %v on %s, poll pending before / after the sends; decoded with the independent codec", opts, car)
			})
		}
	}
	// compression matrix (C16; C01 re-checks delivery under it)
	for _, prop := range []string{"C01", "C16"} {
		prop := prop
		register(prop, "compression-matrix", false, func(c *Ctx) {
			// (x-gzip, compress: registered codings the server does not implement)
			accepts := []string{"", "gzip", "deflate", "br", "zstd", "gzip, deflate", "br;q=1.0, gzip;q=0.8", "identity", "xgzipx", "gzip;q=0", "GZIP", "deflate;q=0.5, *;q=0", "x-gzip", "compress, x-gzip", "x-gzip, gzip", "*", "gzip;q=0, *", "br, gzip;q=0, *;q=0.5", "*;q=0, zstd", "gzip;q=0.0", "gzip;q=0.000, deflate;q=0.00, br;q=0.", "gzip;q=0.0, *"}
			if !c.Thorough() {
				accepts = []string{"", "gzip", "deflate", "br", "zstd", "gzip, deflate", "identity", "xgzipx", "gzip;q=0", "x-gzip", "compress, x-gzip", "gzip;q=0, *", "br, gzip;q=0, *;q=0.5", "gzip;q=0.0", "gzip;q=0.000, deflate;q=0.00, br;q=0."}
			}
			cars := []outCarrier{{"polling", 4, false}, {"polling", 3, false}, {"polling", 3, true}, {"jsonp", 4, false}, {"jsonp", 3, true}}
			seqs := [][]sendSpec{
				{{1, "nil"}}, {{4, "nil"}}, {{4, "nocompress"}}, {{4, "compress"}}, {{5, "nil"}}, {{8, "nil"}}, {{8, "nocompress"}},
				{{4, "nocompress"}, {1, "nil"}}, {{1, "nocompress"}, {4, "nocompress"}}, {{4, "nil"}, {4, "nocompress"}}, {{1, "nil"}, {4, "nocompress"}, {4, "nocompress"}},
			}
			n := 0
			for _, car := range cars {
				for _, comp := range []int{-1, 0, 1024, 2005} {
					for _, ae := range accepts {
						for _, seq := range seqs {
							for _, pf := range []bool{false, true} {
								cfg := sweepCfg{car: car, httpComp: comp, deflate: -1, accept: ae, pollFirst: pf, sends: seq, j: "3"}
								n++
								c.Once(cfg.id(), sweepBody(cfg, prop))
								if n%503 == 1 {
									c.Sample(cfg.id())
								}
							}
						}
					}
				}
			}
			// the Accept-Encoding of a session's polls may change from one poll to the next
			for _, car := range cars {
				for _, pair := range [][2]string{{"gzip", "br"}, {"gzip", "-"}, {"gzip", "gzip;q=0, deflate"}, {"br", "identity"}, {"deflate", "zstd"}} {
					cfg := sweepCfg{car: car, httpComp: 1024, deflate: -1, accept: pair[0], accept2: pair[1], pollFirst: true, sends: []sendSpec{{4, "nil"}, {4, "nil"}, {4, "nil"}}, j: "3"}
					n++
					c.Once(cfg.id(), sweepBody(cfg, prop))
				}
			}
			c.Res.Distinct = int64(n)
			c.Note("polling/jsonp x revisions x httpCompression {unset, threshold 0, 1024, 2005} x Accept-Encoding %v x batches around the threshold with/without a packet requesting compression", accepts)
		})
	}
	// polls of several sessions with different Accept-Encoding headers answered at the same time (C16)
	register("C16", "concurrent-accept-encodings", false, func(c *Ctx) {
		n := 0
		for _, aes := range [][3]string{{"br", "gzip", "gzip"}, {"gzip", "br", "br"}, {"gzip", "", "gzip"}, {"zstd", "deflate", "deflate, zstd"}} {
			aes := aes
			n++
			id := fmt.Sprintf("three sessions, polls pending with Accept-Encoding %q; one answered first, the other two together", aes)
			c.ExploreDev(id, Pick(c, 1, 2), Pick(c, 3, 4), func(x *vsched.Exec) {
				o := config.DefaultServerOptions()
				w := NewWorld(x, o)
				x.Frozen = true
				var pcs []*PollClient
				var polls []*Resp
				for i := 0; i < 3; i++ {
					pc := &PollClient{W: w, EIO: 4}
					if aes[i] != "" {
						pc.Hdr = map[string]string{"Accept-Encoding": aes[i]}
					}
					r := pc.Get()
					x.Settle()
					pk, err := pc.DecodeResp(r)
					if err != nil || len(pk) == 0 {
						x.Fail("sweep-setup[concurrent AE]: handshake failed")
						return
					}
					open, _ := ParseOpen(pk[0])
					pc.Sid, _ = open["sid"].(string)
					pcs = append(pcs, pc)
					polls = append(polls, pc.Get())
					x.Settle()
				}
				msg := strings.Repeat("compressible ", 200)
				send := func(i int) {
					w.ByID[pcs[i].Sid].Sock.Send(types.NewStringBufferString(fmt.Sprintf("%d:%s", i, msg)), &packet.Options{Compress: true}, nil)
				}
				vsched.GoNamed("app0", func() { send(0) })
				x.Settle()
				x.Frozen = false
				vsched.GoNamed("app1", func() { send(1) })
				vsched.GoNamed("app2", func() { send(2) })
				x.Run(x.Now() + time.Second)
				for i, r := range polls {
					cls := fmt.Sprintf("[polling concurrent AE=%q]", aes[i])
					if !r.wrote || r.Code != 200 {
						x.Fail("poll-unanswered%s: the poll of session %d was not answered (wrote=%v status %d)", cls, i+1, r.wrote, r.Code)
						continue
					}
					enc := r.Hdr.Get("Content-Encoding")
					if enc != "" && !aeAllows(aes[i], enc) {
						x.Fail("compressed-unnamed-coding%s: session %d's response has Content-Encoding %q, its request's Accept-Encoding is %q", cls, i+1, enc, aes[i])
					}
					pk, err := pcs[i].DecodeResp(r)
					if err != nil || len(pk) != 1 || string(pk[0].Data) != fmt.Sprintf("%d:%s", i, msg) {
						x.Fail("payload-mismatch%s: session %d's response does not decode to the message sent to it (err=%v, %d packets)", cls, i+1, err, len(pk))
					}
				}
				for _, t := range x.Panics() {
					x.Fail("panic[concurrent AE]: %v", t.Panic)
				}
			})
		}
		c.Res.Distinct = int64(n)
		c.Note("three polling sessions with pending polls carrying different Accept-Encoding headers; one batch answered first, then the other two sessions' batches written concurrently, every interleaving of the two send goroutines up to the bound: each response uses a coding its own request names and decodes to its own message")
	})
	// websocket permessage-deflate matrix (C01)
	register("C01", "deflate-matrix", false, func(c *Ctx) {
		n := 0
		seqs := [][]sendSpec{
			{{1, "nil"}}, {{4, "nil"}}, {{4, "nocompress"}}, {{5, "nil"}}, {{8, "nil"}}, {{4, "pre"}}, {{8, "pre"}},
			{{4, "nil"}, {1, "nil"}}, {{4, "pre"}, {1, "nil"}}, {{1, "nil"}, {4, "pre"}, {1, "nil"}}, {{1, "nil"}, {1, "pre"}, {8, "pre"}, {4, "nil"}},
		}
		for _, eio := range []int{4, 3} {
			for _, b64 := range []bool{false, true} {
				for _, thr := range []int{-1, 0, 1024} {
					for _, offer := range []bool{false, true} {
						for _, seq := range seqs {
							cfg := sweepCfg{car: outCarrier{"websocket", eio, b64}, httpComp: 1024, deflate: thr, wsDeflate: offer, sends: seq}
							n++
							c.Once(cfg.id(), sweepBody(cfg, "C01"))
							if n%97 == 1 {
								c.Sample(cfg.id())
							}
						}
					}
				}
			}
		}
		c.Res.Distinct = int64(n)
		c.Note("websocket x revisions x b64 x perMessageDeflate {unset, threshold 0, 1024} x client offering permessage-deflate or not x batches mixing normal and pre-encoded packets")
	})
	// frame-length boundaries on the frame transports (C01): payloads whose frame lands on each side of
	// the 7-bit / 16-bit / 64-bit length classes
	register("C01", "frame-boundaries", false, func(c *Ctx) {
		base := len(sweepPayloads)
		for _, n := range []int{123, 124, 125, 126, 127, 65533, 65534, 65535, 65536, 65537} {
			sweepPayloads = append(sweepPayloads, Msg(strings.Repeat("k", n)), MsgBin(wtPayload(n, true)))
		}
		n := 0
		for _, car := range []outCarrier{{"webtransport", 4, false}, {"websocket", 4, false}, {"websocket", 3, true}} {
			for pi := base; pi < len(sweepPayloads); pi++ {
				for _, opt := range []string{"nil", "pre"} {
					cfg := sweepCfg{car: car, httpComp: 1024, deflate: -1, sends: []sendSpec{{1, "nil"}, {pi, opt}, {1, "nil"}}}
					n++
					c.Once(cfg.id(), sweepBody(cfg, "C01"))
				}
			}
		}
		c.Res.Distinct = int64(n)
		c.Note("[small, boundary, small] batches with the middle payload of 123..127 and 65533..65537 bytes (text and binary, normal and pre-encoded) on webtransport and websocket")
	})
	// JSONP index and payload characters (C16)
	register("C16", "jsonp-index", false, func(c *Ctx) {
		js := []string{"0", "12", "007", "1;alert(1)", "</script>", " ", "-1", "+7", "١٢", "1e3", "0x1F", "9999999999999999999999", "a1b2c3", "%31", "1](alert(1));//"}
		n := 0
		for _, eio := range []int{4, 3} {
			for _, j := range js {
				for _, pay := range []int{1, 2, 3, 7} {
					cfg := sweepCfg{car: outCarrier{"jsonp", eio, eio == 3}, httpComp: 1024, deflate: -1, accept: "gzip", sends: []sendSpec{{pay, "nil"}}, j: j}
					n++
					c.Once(cfg.id(), sweepBody(cfg, "C16"))
					if n%17 == 1 {
						c.Sample(cfg.id())
					}
				}
			}
		}
		c.Res.Distinct = int64(n)
		c.Note("JSONP sessions with j in %q x payload characters (quotes, newlines, U+2028/9, </script>, separator bytes)", js)
	})
}

var _ = time.Second
