#!/bin/bash
# Builds the verification tools from files on disk (offline) and warms the Go build cache.
set -e
cd "$(dirname "$0")"
export GOFLAGS=-mod=mod GOPROXY=off GOSUMDB=off GOTOOLCHAIN=local
mkdir -p bin evidence replays
(cd tools && go1.26.8 build -o ../bin/instrument ./instrument && go1.26.8 build -o ../bin/vcheck ./vcheck)
# warm the cache: instrument the current tree and compile the harness once
S=$(mktemp -d)
trap 'rm -rf "$S"' EXIT
cp /repo/go.sum harness/go.sum
D=$(cd harness && go1.26.8 list -m -f '{{.Dir}}' github.com/zishang520/engine.io-go-parser)
./bin/instrument -repo /repo -out "$S" -tick "$D/parser,$D/utils" >/dev/null
cp /repo/go.sum harness/go.sum
(cd harness && go1.26.8 test -c -tags verif -overlay "$S/overlay.json" -vet=off -o "$S/harness.test" .)
echo "setup ok"
