#!/bin/bash
# Builds the verification tools from files on disk (offline) and warms the Go build cache.
set -e
cd "$(dirname "$0")"
export GOFLAGS=-mod=mod GOPROXY=off GOSUMDB=off GOTOOLCHAIN=local
mkdir -p bin evidence replays
(cd tools && go1.26.8 build -o ../bin/instrument ./instrument && go1.26.8 build -o ../bin/vcheck ./vcheck)
# warm the cache: instrument the current tree and compile the harness once (same steps as a check)
./bin/vcheck --warm quick
echo "setup ok"
