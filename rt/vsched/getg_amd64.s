#include "textflag.h"

// func getg() uintptr
TEXT ·getg(SB),NOSPLIT,$0-8
	MOVQ (TLS), AX
	MOVQ AX, ret+0(FP)
	RET
