package vsched

// getg returns the address of the running goroutine's g structure. It is the
// only goroutine identity that is cheap enough to consult at every scheduling
// point (runtime.Stack costs ~25µs).
func getg() uintptr
