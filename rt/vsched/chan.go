package vsched

import (
	"reflect"
	"runtime"
)

func scheduled() *Thread {
	t := Self()
	if t == nil || t.killed.Load() {
		return nil
	}
	return t
}

// Scheduled reports whether the caller is a live scheduled thread.
func Scheduled() bool { return scheduled() != nil }

// IsController reports whether an execution is active and the caller is not one
// of its threads (i.e. harness code running on the controller).
func IsController() bool {
	x := cur.Load()
	return x != nil && Self() == nil
}

// Ending reports whether the execution is being torn down.
func Ending() bool {
	x := cur.Load()
	return x != nil && x.ending.Load()
}

func addr(ch any) uintptr {
	v := reflect.ValueOf(ch)
	if v.Kind() == reflect.Chan {
		return v.Pointer()
	}
	return 0
}

// Send is the rewritten form of `ch <- v`.
func Send[T any](ch chan<- T, v T) {
	t := scheduled()
	if t == nil {
		ch <- v
		return
	}
	Point(addr(ch), OpChan, nil)
	select {
	case ch <- v:
		return
	default:
	}
	t.blocked = "send"
	select {
	case ch <- v:
	case <-t.killCh:
		runtime.Goexit()
	}
	Point(0, OpWake, nil)
}

// Recv is the rewritten form of `<-ch`.
func Recv[T any](ch <-chan T) T {
	v, _ := Recv2(ch)
	return v
}

// Recv2 is the rewritten form of `v, ok := <-ch`.
func Recv2[T any](ch <-chan T) (T, bool) {
	t := scheduled()
	if t == nil {
		v, ok := <-ch
		return v, ok
	}
	Point(addr(ch), OpChan, nil)
	select {
	case v, ok := <-ch:
		t.x.consumed(addr(ch))
		return v, ok
	default:
	}
	t.blocked = "recv"
	var v T
	var ok bool
	select {
	case v, ok = <-ch:
	case <-t.killCh:
		runtime.Goexit()
	}
	t.x.consumed(addr(ch))
	Point(0, OpWake, nil)
	return v, ok
}

// PointChan is a scheduling point before a statement that operates on channels
// in a way the rewriter does not wrap (close, unsupported select shapes).
func PointChan() {
	if scheduled() != nil {
		Point(0, OpChan, nil)
	}
}

// SelectRecv is the rewritten form of a select whose cases are all value-less
// receives (plus an optional default). It returns the index of the case taken,
// len(chs) for default. When several cases are ready the choice among them is an
// enumerated environment choice instead of Go's random one.
func SelectRecv(hasDefault bool, chs ...any) int {
	t := scheduled()
	cases := make([]reflect.SelectCase, 0, len(chs)+1)
	for _, ch := range chs {
		cases = append(cases, reflect.SelectCase{Dir: reflect.SelectRecv, Chan: reflect.ValueOf(ch)})
	}
	if t == nil {
		if hasDefault {
			cases = append(cases, reflect.SelectCase{Dir: reflect.SelectDefault})
		}
		i, _, _ := reflect.Select(cases)
		return i
	}
	Point(addr(chs[0]), OpChan, nil)
	// Which cases are ready now? Probing must not consume, so look at readiness
	// via a one-case select with default only for the case finally chosen:
	// try them in an order given by a choice among the apparently ready ones.
	ready := make([]int, 0, len(chs))
	for i := range chs {
		if t.x.chanReady(cases[i].Chan) {
			ready = append(ready, i)
		}
	}
	if len(ready) > 0 {
		k := 0
		if len(ready) > 1 {
			k = t.x.Choose(len(ready), false, "select-ready")
		}
		order := append([]int{ready[k]}, ready...)
		for _, i := range order {
			j, _, _ := reflect.Select([]reflect.SelectCase{cases[i], {Dir: reflect.SelectDefault}})
			if j == 0 {
				t.x.consumed(cases[i].Chan.Pointer())
				return i
			}
		}
	}
	if hasDefault {
		return len(chs)
	}
	t.blocked = "select"
	cases = append(cases, reflect.SelectCase{Dir: reflect.SelectRecv, Chan: reflect.ValueOf(t.killCh)})
	i, _, _ := reflect.Select(cases)
	if i == len(chs) {
		runtime.Goexit()
	}
	t.x.consumed(cases[i].Chan.Pointer())
	Point(0, OpWake, nil)
	return i
}

// chanReady reports whether a receive on ch would certainly not block, judged
// without consuming anything: buffered data, a channel closed through Close, or
// a timer channel whose timer has fired. A sender waiting on an unbuffered
// channel cannot be seen this way; such a case is still found by the ordered
// poll, it just never takes part in a "several ready" choice.
func (x *Exec) chanReady(ch reflect.Value) bool {
	if ch.IsNil() {
		return false
	}
	if ch.Len() > 0 {
		return true
	}
	p := ch.Pointer()
	if _, ok := x.closed.Load(p); ok {
		return true
	}
	if v, ok := x.Aux.Load(p); ok {
		if f, ok := v.(interface{ Fired() bool }); ok {
			return f.Fired()
		}
	}
	return false
}

func (x *Exec) consumed(p uintptr) {
	if v, ok := x.Aux.Load(p); ok {
		if f, ok := v.(interface{ Consumed() }); ok {
			f.Consumed()
		}
	}
}

// Close is the rewritten form of close(ch).
func Close[T any](ch chan<- T) {
	if t := scheduled(); t != nil {
		Point(addr(ch), OpChan, nil)
	}
	if x := cur.Load(); x != nil {
		// the value keeps the channel alive, so that its address cannot be reused by
		// a later channel of the same execution (a stale entry would make that one
		// look ready and add a spurious choice point)
		x.closed.Store(addr(ch), ch)
	}
	close(ch)
}

// NoteClosed lets the harness declare a channel it closed itself.
func NoteClosed(ch any) {
	if x := cur.Load(); x != nil {
		x.closed.Store(addr(ch), ch)
	}
}
