// Package vsched is a deterministic cooperative scheduler for goroutines of an
// instrumented program, run inside a testing/synctest bubble (virtual clock).
//
// Every goroutine started through Go is a Thread. A thread runs only between a
// release by the controller (the bubble's root goroutine) and its next Point, at
// which it parks. The controller calls synctest.Wait before every decision, so
// exactly one thread makes progress per decision and every decision is taken in
// a state where all goroutines of the bubble are parked or durably blocked.
// All nondeterminism (which enabled thread runs next; environment answers asked
// for with Choose) is resolved from a choice list, which makes an execution a
// pure function of that list; package-level Explore enumerates the lists.
package vsched

import (
	"fmt"
	"runtime"
	"runtime/debug"
	"sort"
	"strconv"
	"strings"
	"sync"
	"sync/atomic"
	"testing"
	"testing/synctest"
	"time"
)

// Op is the kind of a scheduled operation.
type Op uint8

const (
	OpStart Op = iota
	OpLock
	OpUnlock
	OpRLock
	OpRUnlock
	OpWAnnounce
	OpOnce
	OpLoad
	OpStore
	OpRMW
	OpChan
	OpWake
	OpTimer
	OpYield
	OpSleep
	OpWG
)

var opNames = [...]string{"start", "lock", "unlock", "rlock", "runlock", "wannounce", "once", "load", "store", "rmw", "chan", "wake", "timer", "yield", "sleep", "wg"}

func (o Op) String() string { return opNames[o] }

const (
	tsRunning int32 = iota // released, or blocked in something we do not own
	tsParked               // at a Point, waiting for the controller
	tsDone
)

type pending struct {
	obj   uintptr
	op    Op
	en    func() bool
	label string
}

// Thread is one scheduled goroutine.
type Thread struct {
	x        *Exec
	idx      int
	Path     string // parent path + spawn index: stable across schedules
	Name     string // spawn-site label
	g        uintptr
	wake     chan struct{}
	killCh   chan struct{}
	state    atomic.Int32
	killed   atomic.Bool
	pend     pending
	blocked  string // what an un-parked thread last said it was about to block on
	children int
	Panic    any
	Stack    string
	Steps    int
	Data     any // harness-owned
}

func (t *Thread) String() string { return t.Path + ":" + t.Name }

// ChoicePoint is one recorded decision with more than one option.
type ChoicePoint struct {
	N       int    // number of options
	Chosen  int    // index taken
	Sched   bool   // scheduling decision (else environment/data choice)
	Preempt bool   // Sched: option 0 is the thread that ran last and is still enabled
	Free    bool   // data: alternatives cost nothing
	FP      uint64 // fingerprint of the menu, for divergence detection
	Desc    string // only when tracing
	obj     uintptr
	op      Op
	step    int // index in Exec.acc of option 0's operation, were it taken
	menu    []int32 // thread idx of each option (scheduling decisions)
	// Racers: threads that later access option 0's object in conflict with its
	// operation here, this being the last conflicting access before theirs.
	Racers []int32
	All    bool // timer operations: always branch to every option
	// Local: option 0's pending operation is a lock/atomic operation that is not a
	// race source in this execution, i.e. no other thread later accesses the same
	// object in a conflicting way with this being the last such access before it.
	// Scheduling another thread first then leads to an execution in which the two
	// commute; the reorderings that matter are explored at the race sources
	// (DPOR-style backtracking, computed on the finished execution).
	Local bool
}

// Cost of taking alternative alt (>0) at this point.
func (c *ChoicePoint) AltCost(alt int) int {
	if alt == 0 {
		return 0
	}
	if c.Sched {
		if c.Preempt {
			return 1
		}
		return 0
	}
	if c.Free {
		return 0
	}
	return 1
}

// Step is one entry of a recorded trace (only when Exec.Tracing).
type Step struct {
	N      int    `json:"n"`
	Thread string `json:"thread"`
	Op     string `json:"op"`
	Obj    int    `json:"obj"`
	VT     int64  `json:"vt_ms"`
	Label  string `json:"label,omitempty"`
}

// Exec is one execution.
type Exec struct {
	T *testing.T

	mu      sync.Mutex // real; guards threads/byG against concurrent thread start
	threads []*Thread
	byG     sync.Map // g -> *Thread
	roots   int

	prefix   []int
	prefixFP []uint64
	pos      int
	Trace    []ChoicePoint
	last     *Thread

	Steps     int
	MaxSteps  int
	CapHit    string
	ticks     atomic.Int64
	MaxTicks  int64
	Tracing   bool
	StepTrace []Step
	objIDs    map[uintptr]int

	Start     time.Time
	deadlines map[any]time.Time
	dlMu      sync.Mutex

	acc      []access // every scheduled operation of the explored window, in order
	ending   atomic.Bool
	closed   sync.Map // chan pointer -> true
	Aux      sync.Map // shim-owned per-execution data (timer channels)
	Diverged string

	// OnQuiescent is called by the controller whenever no thread is enabled,
	// before the clock is advanced (oracle hook).
	OnQuiescent func()
	// Failures recorded by oracles during the execution.
	Failures []string
	Leftover int // goroutines that could not be killed at the end
	// Frozen: scheduling decisions take the default without being recorded as
	// choice points (deterministic set-up phases of a scenario).
	Frozen bool
	// Outcome is the scenario's classification of what happened (for counting
	// distinct behaviours); Sample is an optional human-readable rendering.
	Outcome string
}

var cur atomic.Pointer[Exec]

// Active reports whether an execution is in progress (shims pass through otherwise).
func Active() bool { return cur.Load() != nil }

// Self returns the calling goroutine's thread, or nil for the controller and
// for goroutines outside any execution.
func Self() *Thread {
	x := cur.Load()
	if x == nil {
		return nil
	}
	if v, ok := x.byG.Load(getg()); ok {
		return v.(*Thread)
	}
	return nil
}

// Cur returns the running execution.
func Cur() *Exec { return cur.Load() }

// Now is virtual time since the start of the execution.
func (x *Exec) Now() time.Duration { return time.Since(x.Start) }

// Fail records an oracle failure.
func (x *Exec) Fail(format string, a ...any) {
	x.mu.Lock()
	x.Failures = append(x.Failures, fmt.Sprintf(format, a...))
	x.mu.Unlock()
}

// Threads returns a snapshot of the thread table.
func (x *Exec) Threads() []*Thread {
	x.mu.Lock()
	defer x.mu.Unlock()
	return append([]*Thread(nil), x.threads...)
}

// Go starts f as a scheduled thread. Outside an execution it is a plain go.
func Go(f func()) { GoNamed("", f) }

// GoNamed is Go with a label used in traces and leak reports.
func GoNamed(name string, f func()) {
	x := cur.Load()
	if x == nil {
		go f()
		return
	}
	if x.ending.Load() {
		return // spawned by deferred code of a thread being torn down
	}
	parent := Self()
	if name == "" {
		name = callerLabel(3)
	}
	t := &Thread{x: x, Name: name, wake: make(chan struct{}), killCh: make(chan struct{})}
	x.mu.Lock()
	t.idx = len(x.threads)
	if parent == nil {
		t.Path = strconv.Itoa(x.roots)
		x.roots++
	} else {
		t.Path = parent.Path + "." + strconv.Itoa(parent.children)
		parent.children++
	}
	x.threads = append(x.threads, t)
	x.mu.Unlock()
	t.pend = pending{op: OpStart}
	t.state.Store(tsParked) // parked at its start point from the controller's view
	go t.main(f)
}

func callerLabel(skip int) string {
	_, file, line, ok := runtime.Caller(skip)
	if !ok {
		return "?"
	}
	if i := strings.LastIndexByte(file, '/'); i >= 0 {
		if j := strings.LastIndexByte(file[:i], '/'); j >= 0 {
			file = file[j+1:]
		}
	}
	return file + ":" + strconv.Itoa(line)
}

type hangSentinel struct{ ticks int64 }

func (t *Thread) main(f func()) {
	t.g = getg()
	t.x.byG.Store(t.g, t)
	defer func() {
		if r := recover(); r != nil && !t.killed.Load() {
			t.Panic = r
			t.Stack = string(debug.Stack())
		}
		t.x.byG.Delete(t.g)
		t.state.Store(tsDone)
	}()
	t.park()
	f()
}

// park blocks until the controller releases (or kills) the thread.
func (t *Thread) park() {
	select {
	case <-t.wake:
		if t.killed.Load() {
			runtime.Goexit()
		}
	case <-t.killCh:
		runtime.Goexit()
	}
	t.state.Store(tsRunning)
}

// Point is a scheduling point before an operation of kind op on obj. en, if not
// nil, says whether the operation can complete now (evaluated by the controller
// while every thread is stopped).
func Point(obj uintptr, op Op, en func() bool) {
	t := Self()
	if t == nil || t.killed.Load() {
		return
	}
	t.pend = pending{obj: obj, op: op, en: en}
	t.state.Store(tsParked)
	t.park()
}

type access struct {
	th  int32
	op  Op
	obj uintptr
}

func conflict(a, b access) bool {
	if a.obj != b.obj || a.th == b.th {
		return false
	}
	if a.op == OpLoad && b.op == OpLoad {
		return false
	}
	if a.op == OpRLock && b.op == OpRLock {
		return false
	}
	return true
}

// markLocal classifies the recorded choice points once the execution is over:
// for every operation it finds the threads whose later operation on the same
// object conflicts with it, it being the last such one before theirs (the race
// sources of dynamic partial-order reduction). Thread start/wake/yield/sleep
// points touch no shared object and are never sources.
func (x *Exec) markLocal() {
	acc := x.acc
	for _, t := range x.threads {
		if t.state.Load() == tsParked && t.pend.obj != 0 {
			acc = append(acc, access{int32(t.idx), t.pend.op, t.pend.obj})
		}
	}
	racers := make(map[int][]int32)
	byObj := map[uintptr][]int{}
	for j, c := range acc {
		if c.obj == 0 {
			continue
		}
		l := byObj[c.obj]
		for k := len(l) - 1; k >= 0; k-- {
			if conflict(acc[l[k]], c) {
				racers[l[k]] = append(racers[l[k]], c.th)
				break
			}
		}
		byObj[c.obj] = append(l, j)
	}
	for i := range x.Trace {
		cp := &x.Trace[i]
		if !cp.Sched {
			continue
		}
		if cp.op == OpTimer {
			cp.All = true
			continue
		}
		cp.Racers = racers[cp.step]
		cp.Local = len(cp.Racers) == 0
	}
}

// Yield is a labelled scheduling point of a harness thread (a script step).
func Yield(label string) {
	t := Self()
	if t == nil || t.killed.Load() {
		return
	}
	t.pend = pending{op: OpYield, label: label}
	t.state.Store(tsParked)
	t.park()
}

// SleepUntil parks the calling thread until virtual time d (since start).
func SleepUntil(d time.Duration) {
	t := Self()
	if t == nil || t.killed.Load() {
		return
	}
	x := t.x
	at := x.Start.Add(d)
	x.SetDeadline(t, at)
	t.pend = pending{op: OpSleep, en: func() bool { return !time.Now().Before(at) }}
	t.state.Store(tsParked)
	t.park()
	x.ClearDeadline(t)
}

// Sleep parks the calling thread for d of virtual time.
func Sleep(d time.Duration) {
	if x := cur.Load(); x != nil && Self() != nil {
		SleepUntil(x.Now() + d)
	}
}

// Blocking announces that the calling thread is about to block on something the
// scheduler does not own (a channel, a harness connection); label is reported if
// it never comes back. Killable returns the channel closed when the thread must die.
func Blocking(label string) (kill <-chan struct{}) {
	t := Self()
	if t == nil {
		return nil
	}
	t.blocked = label
	return t.killCh
}

// Die terminates the calling thread (used by wrappers whose kill case fired).
func Die() { runtime.Goexit() }

// Tick counts one loop iteration of instrumented code against the execution's
// work budget; exceeding it panics in the calling thread (recorded as a hang).
func Tick() {
	x := cur.Load()
	if x == nil {
		return
	}
	n := x.ticks.Add(1)
	if x.MaxTicks > 0 && n > x.MaxTicks && !x.ending.Load() {
		if t := Self(); t != nil && !t.killed.Load() {
			panic(hangSentinel{n})
		}
	}
}

// Ticks returns the work counter.
func (x *Exec) Ticks() int64 { return x.ticks.Load() }

// IsHang reports whether a recorded thread panic is the work-budget abort.
func IsHang(p any) bool { _, ok := p.(hangSentinel); return ok }

// SetDeadline registers a virtual instant at which something becomes enabled.
func (x *Exec) SetDeadline(key any, at time.Time) {
	x.dlMu.Lock()
	x.deadlines[key] = at
	x.dlMu.Unlock()
}

func (x *Exec) ClearDeadline(key any) {
	x.dlMu.Lock()
	delete(x.deadlines, key)
	x.dlMu.Unlock()
}

// SetDeadline / ClearDeadline for the shims (no-ops outside an execution).
func SetDeadline(key any, at time.Time) {
	if x := cur.Load(); x != nil {
		x.SetDeadline(key, at)
	}
}
func ClearDeadline(key any) {
	if x := cur.Load(); x != nil {
		x.ClearDeadline(key)
	}
}

func (x *Exec) nextDeadline() (time.Time, bool) {
	now := time.Now()
	var best time.Time
	ok := false
	x.dlMu.Lock()
	for k, d := range x.deadlines {
		if !d.After(now) {
			delete(x.deadlines, k)
			continue
		}
		if !ok || d.Before(best) {
			best, ok = d, true
		}
	}
	x.dlMu.Unlock()
	return best, ok
}

func (x *Exec) objID(p uintptr) int {
	if p == 0 {
		return 0
	}
	id, ok := x.objIDs[p]
	if !ok {
		id = len(x.objIDs) + 1
		x.objIDs[p] = id
	}
	return id
}

// menu returns the enabled threads in canonical order: the thread that ran
// last first (if enabled), then by creation index.
func (x *Exec) menu() []*Thread {
	x.mu.Lock()
	ths := x.threads
	x.mu.Unlock()
	var m []*Thread
	for _, t := range ths {
		if t.state.Load() != tsParked {
			continue
		}
		if t.pend.en != nil && !t.pend.en() {
			continue
		}
		m = append(m, t)
	}
	if x.last != nil {
		for i, t := range m {
			if t == x.last {
				copy(m[1:i+1], m[:i])
				m[0] = t
				break
			}
		}
	}
	return m
}

func fnv(h uint64, s string) uint64 {
	for i := 0; i < len(s); i++ {
		h ^= uint64(s[i])
		h *= 1099511628211
	}
	return h
}

func (x *Exec) take(cp ChoicePoint) int {
	idx := 0
	if x.pos < len(x.prefix) {
		idx = x.prefix[x.pos]
		if x.pos < len(x.prefixFP) && x.prefixFP[x.pos] != cp.FP && x.Diverged == "" {
			x.Diverged = fmt.Sprintf("choice %d: menu fingerprint %x, recorded %x (%s)", x.pos, cp.FP, x.prefixFP[x.pos], cp.Desc)
		}
		if idx >= cp.N {
			if x.Diverged == "" {
				x.Diverged = fmt.Sprintf("choice %d: index %d out of range %d", x.pos, idx, cp.N)
			}
			idx = 0
		}
	}
	x.pos++
	cp.Chosen = idx
	x.Trace = append(x.Trace, cp)
	return idx
}

// Choose resolves an environment/data choice with n options from the choice
// list (default 0). Alternatives cost one deviation each unless free.
func (x *Exec) Choose(n int, free bool, label string) int {
	if n <= 1 || x.Frozen {
		return 0
	}
	cp := ChoicePoint{N: n, Free: free, FP: fnv(fnv(14695981039346656037, "data:"+label), strconv.Itoa(n))}
	if x.Tracing {
		cp.Desc = "data " + label
	}
	return x.take(cp)
}

func (x *Exec) chooseThread(m []*Thread) *Thread {
	if len(m) == 1 || x.Frozen {
		return m[0]
	}
	h := uint64(14695981039346656037)
	for _, t := range m {
		h = fnv(h, t.Path)
		h = fnv(h, t.pend.op.String())
		h = fnv(h, "|")
	}
	cp := ChoicePoint{N: len(m), Sched: true, Preempt: m[0] == x.last, FP: h, obj: m[0].pend.obj, op: m[0].pend.op, step: len(x.acc)}
	cp.menu = make([]int32, len(m))
	for i, t := range m {
		cp.menu[i] = int32(t.idx)
	}
	if x.Tracing {
		var sb strings.Builder
		for i, t := range m {
			if i > 0 {
				sb.WriteString(" ")
			}
			fmt.Fprintf(&sb, "%s/%s", t, t.pend.op)
		}
		cp.Desc = sb.String()
	}
	return m[x.take(cp)]
}

// Run drives threads until virtual time reaches limit (since start) and no
// thread is enabled, or nothing can ever happen again, or a cap is hit. With
// limit <= now it only drains what is enabled now (no clock advance).
func (x *Exec) Run(limit time.Duration) {
	lim := x.Start.Add(limit)
	for {
		synctest.Wait()
		if x.CapHit != "" {
			return
		}
		m := x.menu()
		if len(m) == 0 {
			if x.OnQuiescent != nil {
				x.OnQuiescent()
			}
			d, ok := x.nextDeadline()
			now := time.Now()
			if !ok || d.After(lim) {
				if lim.After(now) {
					time.Sleep(lim.Sub(now))
					synctest.Wait()
					// something may have become enabled exactly at lim (foreign timers)
					if len(x.menu()) > 0 {
						continue
					}
				}
				return
			}
			time.Sleep(d.Sub(now))
			continue
		}
		t := x.chooseThread(m)
		x.last = t
		if !x.Frozen {
			x.acc = append(x.acc, access{int32(t.idx), t.pend.op, t.pend.obj})
		}
		x.Steps++
		t.Steps++
		if x.Tracing {
			x.StepTrace = append(x.StepTrace, Step{N: x.Steps, Thread: t.String(), Op: t.pend.op.String(), Obj: x.objID(t.pend.obj), VT: int64(x.Now() / time.Millisecond), Label: t.pend.label})
		}
		if x.MaxSteps > 0 && x.Steps > x.MaxSteps {
			x.CapHit = "steps"
			return
		}
		t.wake <- struct{}{}
	}
}

// Settle runs what is enabled now without advancing the clock.
func (x *Exec) Settle() { x.Run(x.Now()) }

// Advance runs for d of virtual time.
func (x *Exec) Advance(d time.Duration) { x.Run(x.Now() + d) }

// Blocked lists live threads that are not parked (blocked outside the scheduler)
// or parked on a disabled operation, with what they wait for.
func (x *Exec) Blocked() []string {
	var out []string
	for _, t := range x.Threads() {
		switch t.state.Load() {
		case tsRunning:
			out = append(out, t.String()+" blocked:"+t.blocked)
		case tsParked:
			if t.pend.en != nil && !t.pend.en() {
				out = append(out, t.String()+" waiting:"+t.pend.op.String())
			}
		}
	}
	sort.Strings(out)
	return out
}

// Live returns threads that have not finished.
func (x *Exec) Live() []*Thread {
	var out []*Thread
	for _, t := range x.Threads() {
		if t.state.Load() != tsDone {
			out = append(out, t)
		}
	}
	return out
}

// Panics returns threads that panicked.
func (x *Exec) Panics() []*Thread {
	var out []*Thread
	for _, t := range x.Threads() {
		if t.Panic != nil {
			out = append(out, t)
		}
	}
	return out
}

// teardown kills every live thread, one at a time so that deferred code of one
// never runs concurrently with another's.
func (x *Exec) teardown() {
	x.ending.Store(true)
	for pass := 0; pass < 3; pass++ {
		for _, t := range x.Threads() {
			if t.state.Load() == tsDone || t.killed.Load() {
				continue
			}
			t.killed.Store(true)
			close(t.killCh)
			synctest.Wait()
		}
	}
	for _, t := range x.Threads() {
		if t.state.Load() != tsDone {
			x.Leftover++
		}
	}
}

// Result of one execution.
type Result struct {
	Trace     []ChoicePoint
	Steps     int
	Failures  []string
	Diverged  string
	CapHit    string
	StepTrace []Step
	Leftover  int
	Threads   int
	Ticks     int64
}

// Options for a single execution.
type Options struct {
	MaxSteps int
	MaxTicks int64
	Tracing  bool
}

// RunOnce runs body as the controller of a fresh execution with the given
// choice prefix (later choices default to 0).
func RunOnce(t *testing.T, prefix []int, prefixFP []uint64, opt Options, body func(x *Exec)) (res Result) {
	x := &Exec{T: t, prefix: prefix, prefixFP: prefixFP, MaxSteps: opt.MaxSteps, MaxTicks: opt.MaxTicks, Tracing: opt.Tracing,
		deadlines: map[any]time.Time{}, objIDs: map[uintptr]int{}}
	if x.MaxSteps == 0 {
		x.MaxSteps = 200000
	}
	if x.MaxTicks == 0 {
		x.MaxTicks = 10_000_000
	}
	func() {
		defer func() {
			if r := recover(); r != nil {
				s := fmt.Sprint(r)
				if strings.Contains(s, "deadlock") && strings.Contains(s, "bubble") {
					return // goroutines we could not kill; counted in Leftover
				}
				x.Failures = append(x.Failures, "controller panic: "+s+"\n"+string(debug.Stack()))
			}
		}()
		synctest.Test(t, func(t *testing.T) {
			x.Start = time.Now()
			cur.Store(x)
			defer cur.Store(nil)
			defer x.teardown()
			body(x)
		})
	}()
	cur.Store(nil)
	x.markLocal()
	return Result{Trace: x.Trace, Steps: x.Steps, Failures: x.Failures, Diverged: x.Diverged, CapHit: x.CapHit, StepTrace: x.StepTrace,
		Leftover: x.Leftover, Threads: len(x.threads), Ticks: x.ticks.Load()}
}

// WaitFor parks the calling thread until cond holds (evaluated by the
// controller while every thread is stopped). Harness-side blocking primitive.
func WaitFor(obj uintptr, label string, cond func() bool) {
	t := Self()
	if t == nil || t.killed.Load() {
		return
	}
	t.pend = pending{obj: obj, op: OpChan, label: label, en: cond}
	t.state.Store(tsParked)
	t.park()
}
