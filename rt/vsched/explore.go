package vsched

import (
	"fmt"
	"sort"
	"testing"
	"time"
)

// Body is one scenario instance: it runs as the controller of an execution and
// reports oracle failures through x.Fail; x.Outcome classifies what happened.
type Body func(x *Exec)

// ExploreOpts bound a search.
type ExploreOpts struct {
	Bound     int           // maximum total cost (preemptions + deviations)
	Budget    time.Duration // wall-clock budget for this search (0 = none); stopping early is reported, never an oracle
	MaxExecs  int64         // 0 = none
	Shard     int           // this worker
	NShards   int           // 0/1 = no sharding
	Exec      Options
	KeepFirst int // violations kept per fingerprint (default 1)
	// MaxDev bounds the number of non-default scheduling decisions (context
	// switches away from the default schedule, preemptive or not) per execution;
	// 0 = unbounded. Non-preemptive switches are free under Bound alone and their
	// combinations grow exponentially with the length of a scenario.
	MaxDev int
	// NoReduction disables the independence reduction (alternatives are then
	// explored at every choice point, including thread-local operations).
	NoReduction bool
	// Fingerprint maps a failure message to the class it is reported under.
	Fingerprint func(msg string) string
}

// Violation is a failing execution, replayable from Choices.
type Violation struct {
	Fingerprint string   `json:"fingerprint"`
	Choices     []int    `json:"choices"`
	Failures    []string `json:"failures"`
	Cost        int      `json:"cost"`
	Steps       []Step   `json:"steps,omitempty"`
	Stable      bool     `json:"stable"` // replayed identically
	Count       int64    `json:"count"`  // executions with this fingerprint
}

// ExploreResult summarises a search.
type ExploreResult struct {
	Execs          int64            `json:"execs"`
	Steps          int64            `json:"steps"`
	ChoicePoints   int64            `json:"choice_points"`
	MaxTrace       int              `json:"max_trace"`
	BoundCompleted int              `json:"bound_completed"` // -1: not even bound 0
	Exhaustive     bool             `json:"exhaustive"`      // every bound up to Bound completed, no cap hit
	Stopped        string           `json:"stopped,omitempty"`
	CapsHit        map[string]int64 `json:"caps_hit,omitempty"`
	Outcomes       map[string]int64 `json:"outcomes"`
	Violations     []*Violation     `json:"violations,omitempty"`
	Diverged       string           `json:"diverged,omitempty"`
	Leftover       int64            `json:"leftover_goroutines"`
	Pruned         int64            `json:"pruned_local_alternatives"`
	DevCapped      int64            `json:"alternatives_beyond_deviation_bound"`
	WallS          float64          `json:"wall_s"`
}

type explorer struct {
	t     *testing.T
	body  Body
	opt   ExploreOpts
	res   *ExploreResult
	byFP  map[string]*Violation
	start time.Time
	level int
	ord   int64 // ordinal of depth-1 branches, for sharding
	stop  bool
}

func (e *explorer) runOnce(prefix []int, fps []uint64, tracing bool) (Result, string) {
	o := e.opt.Exec
	o.Tracing = tracing
	var outcome string
	r := RunOnce(e.t, prefix, fps, o, func(x *Exec) {
		e.body(x)
		outcome = x.Outcome
	})
	return r, outcome
}

// frame is one node of the depth-first search: an executed run whose choice
// points in [lo, len(trace)) are this frame's to branch on.
type frame struct {
	parent *frame
	lo, hi int // hi: cps below it are shared with the child currently running
	trace  []ChoicePoint
	want   map[int]map[int32]bool // cp -> threads to branch to (race partners found so far), nil key set = all
	all    map[int]bool
	done   map[int]map[int]bool // cp -> alternatives already explored
}

// wanted reports whether alternative alt at cp i has to be explored.
func (f *frame) wanted(i, alt int) bool {
	cp := &f.trace[i]
	if !cp.Sched || f.all[i] {
		return true
	}
	w := f.want[i]
	if len(w) == 0 {
		return false
	}
	if w[cp.menu[alt]] {
		return true
	}
	// a race partner that is not among the options cannot be scheduled directly:
	// fall back to every option (one of them may enable it)
	for th := range w {
		found := false
		for _, m := range cp.menu {
			if m == th {
				found = true
				break
			}
		}
		if !found {
			return true
		}
	}
	return false
}

// route delivers, to the frame that owns choice point k, what an execution
// (this frame's own, or a descendant's that shares k) found out about option
// 0's operation there: the threads racing with it. Following bounded
// partial-order reduction, the same threads are also wanted at the choice point
// where option 0's thread began its current uninterrupted run (a context switch
// that costs no preemption), so that reorderings stay reachable within the bound.
func (f *frame) route(tr []ChoicePoint, k int) {
	cp := &tr[k]
	if len(cp.Racers) == 0 && !cp.All {
		return
	}
	f.deliver(k, cp.Racers, cp.All)
	if len(cp.menu) == 0 {
		return
	}
	th := cp.menu[0]
	for j := k; j >= 0; j-- {
		c := &tr[j]
		if !c.Sched || c.Chosen != 0 || len(c.menu) == 0 || c.menu[0] != th {
			break
		}
		if !c.Preempt {
			if j != k {
				f.deliver(j, cp.Racers, cp.All)
			}
			break
		}
	}
}

func (f *frame) deliver(k int, racers []int32, all bool) {
	for f != nil {
		if k >= f.lo {
			if k < f.hi {
				if all {
					f.all[k] = true
				}
				for _, th := range racers {
					if f.want[k] == nil {
						f.want[k] = map[int32]bool{}
					}
					f.want[k][th] = true
				}
			}
			return
		}
		f = f.parent
	}
}

func (e *explorer) explore(parent *frame, prefix []int, fps []uint64, cost, depth, devs int) {
	if e.stop {
		return
	}
	if e.opt.Budget > 0 && time.Since(e.start) > e.opt.Budget {
		e.stop, e.res.Stopped = true, "budget"
		return
	}
	if e.opt.MaxExecs > 0 && e.res.Execs >= e.opt.MaxExecs {
		e.stop, e.res.Stopped = true, "max_execs"
		return
	}
	r, outcome := e.runOnce(prefix, fps, false)
	if r.Diverged != "" {
		e.res.Diverged = fmt.Sprintf("prefix %v: %s", prefix, r.Diverged)
		e.stop = true
		return
	}
	// An execution is counted and checked at the level equal to its cost (lower
	// levels were handled by earlier iterations).
	// sharded search: the root execution itself is counted by shard 0 only
	if cost == e.level && !(depth == 0 && e.opt.NShards > 1 && e.opt.Shard != 0) {
		e.res.Execs++
		e.res.Steps += int64(r.Steps)
		e.res.ChoicePoints += int64(len(r.Trace))
		if len(r.Trace) > e.res.MaxTrace {
			e.res.MaxTrace = len(r.Trace)
		}
		e.res.Leftover += int64(r.Leftover)
		if r.CapHit != "" {
			e.res.CapsHit[r.CapHit]++
		}
		e.res.Outcomes[outcome]++
		if len(r.Failures) > 0 {
			e.violation(prefixOf(r.Trace, len(r.Trace)), r, cost)
		}
	}
	// races this execution reveals at choice points it shares with its ancestors
	f := &frame{parent: parent, lo: len(prefix), hi: len(r.Trace), trace: r.Trace, want: map[int]map[int32]bool{}, all: map[int]bool{}, done: map[int]map[int]bool{}}
	if !e.opt.NoReduction {
		for k := 0; k < len(r.Trace); k++ {
			if cp := &r.Trace[k]; cp.Sched && cp.Chosen == 0 {
				f.route(r.Trace, k)
			}
		}
	}
	// branch explores the alternatives at cp i that are wanted and not yet done;
	// reports whether it ran any.
	branch := func(i int) bool {
		cp := &r.Trace[i]
		ran := false
		for alt := 1; alt < cp.N; alt++ {
			if f.done[i][alt] {
				continue
			}
			if depth == 0 && e.opt.NShards > 1 {
				// sharded search: the alternatives of the root execution are not reduced (a race that asks
				// for one of them may only be seen in another shard's subtree) and are dealt out by position;
				// inside each of them the reduction applies as usual
				if (i*131+alt)%e.opt.NShards != e.opt.Shard {
					continue
				}
			} else if !e.opt.NoReduction && !f.wanted(i, alt) {
				continue
			}
			c := cost + cp.AltCost(alt)
			if c > e.level {
				continue
			}
			if e.opt.MaxDev > 0 && cp.Sched && devs+1 > e.opt.MaxDev {
				e.res.DevCapped++
				continue
			}
			if f.done[i] == nil {
				f.done[i] = map[int]bool{}
			}
			f.done[i][alt] = true
			f.hi = i // the child shares this frame's choice points below i
			np := make([]int, i+1)
			nf := make([]uint64, i+1)
			for k := 0; k < i; k++ {
				np[k], nf[k] = r.Trace[k].Chosen, r.Trace[k].FP
			}
			np[i], nf[i] = alt, cp.FP
			ran = true
			nd := devs
			if cp.Sched {
				nd++
			}
			e.explore(f, np, nf, c, depth+1, nd)
			if e.stop {
				return ran
			}
		}
		return ran
	}
	// work list: repeat until no choice point of this frame has a wanted,
	// unexplored alternative (descendants keep adding to want while we go)
	for again := true; again && !e.stop; {
		again = false
		for i := len(prefix); i < len(r.Trace) && !e.stop; i++ {
			if branch(i) {
				again = true
			}
		}
	}
	if !e.opt.NoReduction {
		for i := len(prefix); i < len(r.Trace); i++ {
			e.res.Pruned += int64(r.Trace[i].N - 1 - len(f.done[i]))
		}
	}
}

func prefixOf(tr []ChoicePoint, n int) []int {
	// trailing default choices are implied
	for n > 0 && tr[n-1].Chosen == 0 {
		n--
	}
	p := make([]int, n)
	for i := 0; i < n; i++ {
		p[i] = tr[i].Chosen
	}
	return p
}

func (e *explorer) violation(choices []int, r Result, cost int) {
	fp := r.Failures[0]
	if e.opt.Fingerprint != nil {
		fp = e.opt.Fingerprint(fp)
	}
	if v, ok := e.byFP[fp]; ok {
		v.Count++
		return
	}
	v := &Violation{Fingerprint: fp, Choices: choices, Failures: r.Failures, Cost: cost, Count: 1}
	// replay with tracing: must reproduce the same failures
	v.Stable = true
	for k := 0; k < 2; k++ {
		rr, _ := e.runOnce(choices, nil, true)
		if fmt.Sprint(rr.Failures) != fmt.Sprint(r.Failures) {
			v.Stable = false
			v.Failures = append(v.Failures, fmt.Sprintf("REPLAY DIFFERS: %v (diverged=%q)", rr.Failures, rr.Diverged))
		}
		v.Steps = rr.StepTrace
	}
	e.byFP[fp] = v
	e.res.Violations = append(e.res.Violations, v)
}

// Explore enumerates every execution of body whose total cost (preemptions and
// environment deviations) is at most opt.Bound, iterating the bound upwards.
func Explore(t *testing.T, body Body, opt ExploreOpts) *ExploreResult {
	res := &ExploreResult{BoundCompleted: -1, CapsHit: map[string]int64{}, Outcomes: map[string]int64{}}
	e := &explorer{t: t, body: body, opt: opt, res: res, byFP: map[string]*Violation{}, start: time.Now()}
	for lvl := 0; lvl <= opt.Bound && !e.stop; lvl++ {
		e.level = lvl
		e.ord = 0
		e.explore(nil, nil, nil, 0, 0, 0)
		if !e.stop {
			res.BoundCompleted = lvl
		}
	}
	res.Exhaustive = !e.stop && len(res.CapsHit) == 0
	res.WallS = time.Since(e.start).Seconds()
	sort.Slice(res.Violations, func(i, j int) bool { return res.Violations[i].Fingerprint < res.Violations[j].Fingerprint })
	return res
}

// Replay runs one execution from a recorded choice list with tracing on.
func Replay(t *testing.T, body Body, choices []int, opt Options) (Result, string) {
	e := &explorer{t: t, body: body, opt: ExploreOpts{Exec: opt}}
	return e.runOnce(choices, nil, true)
}
