package vsched

import (
	"fmt"
	"sort"
	"testing"
	"time"
)

// Body is one scenario instance: it runs as the controller of an execution and
// reports oracle failures through x.Fail; x.Outcome classifies what happened.
type Body func(x *Exec)

// ExploreOpts bound a search.
type ExploreOpts struct {
	Bound     int           // maximum total cost (preemptions + deviations)
	Budget    time.Duration // wall-clock budget for this search (0 = none); stopping early is reported, never an oracle
	MaxExecs  int64         // 0 = none
	Shard     int           // this worker
	NShards   int           // 0/1 = no sharding
	Exec      Options
	KeepFirst int // violations kept per fingerprint (default 1)
	// Fingerprint maps a failure message to the class it is reported under.
	Fingerprint func(msg string) string
}

// Violation is a failing execution, replayable from Choices.
type Violation struct {
	Fingerprint string   `json:"fingerprint"`
	Choices     []int    `json:"choices"`
	Failures    []string `json:"failures"`
	Cost        int      `json:"cost"`
	Steps       []Step   `json:"steps,omitempty"`
	Stable      bool     `json:"stable"` // replayed identically
	Count       int64    `json:"count"`  // executions with this fingerprint
}

// ExploreResult summarises a search.
type ExploreResult struct {
	Execs          int64            `json:"execs"`
	Steps          int64            `json:"steps"`
	ChoicePoints   int64            `json:"choice_points"`
	MaxTrace       int              `json:"max_trace"`
	BoundCompleted int              `json:"bound_completed"` // -1: not even bound 0
	Exhaustive     bool             `json:"exhaustive"`      // every bound up to Bound completed, no cap hit
	Stopped        string           `json:"stopped,omitempty"`
	CapsHit        map[string]int64 `json:"caps_hit,omitempty"`
	Outcomes       map[string]int64 `json:"outcomes"`
	Violations     []*Violation     `json:"violations,omitempty"`
	Diverged       string           `json:"diverged,omitempty"`
	Leftover       int64            `json:"leftover_goroutines"`
	WallS          float64          `json:"wall_s"`
}

type explorer struct {
	t     *testing.T
	body  Body
	opt   ExploreOpts
	res   *ExploreResult
	byFP  map[string]*Violation
	start time.Time
	level int
	ord   int64 // ordinal of depth-1 branches, for sharding
	stop  bool
}

func (e *explorer) runOnce(prefix []int, fps []uint64, tracing bool) (Result, string) {
	o := e.opt.Exec
	o.Tracing = tracing
	var outcome string
	r := RunOnce(e.t, prefix, fps, o, func(x *Exec) {
		e.body(x)
		outcome = x.Outcome
	})
	return r, outcome
}

func (e *explorer) explore(prefix []int, fps []uint64, cost, depth int) {
	if e.stop {
		return
	}
	if e.opt.Budget > 0 && time.Since(e.start) > e.opt.Budget {
		e.stop, e.res.Stopped = true, "budget"
		return
	}
	if e.opt.MaxExecs > 0 && e.res.Execs >= e.opt.MaxExecs {
		e.stop, e.res.Stopped = true, "max_execs"
		return
	}
	r, outcome := e.runOnce(prefix, fps, false)
	if r.Diverged != "" {
		e.res.Diverged = fmt.Sprintf("prefix %v: %s", prefix, r.Diverged)
		e.stop = true
		return
	}
	// An execution is counted and checked at the level equal to its cost (lower
	// levels were handled by earlier iterations); with sharding, shared prefixes
	// (depth 0) are counted by shard 0 only.
	counted := cost == e.level && (depth > 0 || e.opt.NShards <= 1 || e.opt.Shard == 0)
	if counted {
		e.res.Execs++
		e.res.Steps += int64(r.Steps)
		e.res.ChoicePoints += int64(len(r.Trace))
		if len(r.Trace) > e.res.MaxTrace {
			e.res.MaxTrace = len(r.Trace)
		}
		e.res.Leftover += int64(r.Leftover)
		if r.CapHit != "" {
			e.res.CapsHit[r.CapHit]++
		}
		e.res.Outcomes[outcome]++
		if len(r.Failures) > 0 {
			e.violation(prefixOf(r.Trace, len(r.Trace)), r, cost)
		}
	}
	for i := len(prefix); i < len(r.Trace); i++ {
		cp := &r.Trace[i]
		for alt := 1; alt < cp.N; alt++ {
			c := cost + cp.AltCost(alt)
			if c > e.level {
				continue
			}
			if depth == 0 && e.opt.NShards > 1 {
				e.ord++
				if int(e.ord%int64(e.opt.NShards)) != e.opt.Shard {
					continue
				}
			}
			np := make([]int, i+1)
			nf := make([]uint64, i+1)
			for k := 0; k < i; k++ {
				np[k], nf[k] = r.Trace[k].Chosen, r.Trace[k].FP
			}
			np[i], nf[i] = alt, cp.FP
			e.explore(np, nf, c, depth+1)
			if e.stop {
				return
			}
		}
	}
}

func prefixOf(tr []ChoicePoint, n int) []int {
	// trailing default choices are implied
	for n > 0 && tr[n-1].Chosen == 0 {
		n--
	}
	p := make([]int, n)
	for i := 0; i < n; i++ {
		p[i] = tr[i].Chosen
	}
	return p
}

func (e *explorer) violation(choices []int, r Result, cost int) {
	fp := r.Failures[0]
	if e.opt.Fingerprint != nil {
		fp = e.opt.Fingerprint(fp)
	}
	if v, ok := e.byFP[fp]; ok {
		v.Count++
		return
	}
	v := &Violation{Fingerprint: fp, Choices: choices, Failures: r.Failures, Cost: cost, Count: 1}
	// replay with tracing: must reproduce the same failures
	v.Stable = true
	for k := 0; k < 2; k++ {
		rr, _ := e.runOnce(choices, nil, true)
		if fmt.Sprint(rr.Failures) != fmt.Sprint(r.Failures) {
			v.Stable = false
		}
		v.Steps = rr.StepTrace
	}
	e.byFP[fp] = v
	e.res.Violations = append(e.res.Violations, v)
}

// Explore enumerates every execution of body whose total cost (preemptions and
// environment deviations) is at most opt.Bound, iterating the bound upwards.
func Explore(t *testing.T, body Body, opt ExploreOpts) *ExploreResult {
	res := &ExploreResult{BoundCompleted: -1, CapsHit: map[string]int64{}, Outcomes: map[string]int64{}}
	e := &explorer{t: t, body: body, opt: opt, res: res, byFP: map[string]*Violation{}, start: time.Now()}
	for lvl := 0; lvl <= opt.Bound && !e.stop; lvl++ {
		e.level = lvl
		e.ord = 0
		e.explore(nil, nil, 0, 0)
		if !e.stop {
			res.BoundCompleted = lvl
		}
	}
	res.Exhaustive = !e.stop && len(res.CapsHit) == 0
	res.WallS = time.Since(e.start).Seconds()
	sort.Slice(res.Violations, func(i, j int) bool { return res.Violations[i].Fingerprint < res.Violations[j].Fingerprint })
	return res
}

// Replay runs one execution from a recorded choice list with tracing on.
func Replay(t *testing.T, body Body, choices []int, opt Options) (Result, string) {
	e := &explorer{t: t, body: body, opt: ExploreOpts{Exec: opt}}
	return e.runOnce(choices, nil, true)
}
