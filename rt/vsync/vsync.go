// Package vsync replaces package sync in instrumented code. Blocking is
// modelled (a real mutex wait is not durably blocking for synctest), every
// acquisition is a scheduling point whose enabledness the controller evaluates.
package vsync

import (
	"sync"
	"unsafe"

	"verifrt/vsched"
)

type (
	WaitGroup = sync.WaitGroup
	Cond      = sync.Cond
	Map       = sync.Map
	Locker    = sync.Locker
)

func NewCond(l Locker) *Cond { return sync.NewCond(l) }

func OnceFunc(f func()) func() {
	var o Once
	return func() { o.Do(f) }
}

// Mutex models sync.Mutex.
// OnceValue / OnceValues: as in package sync, built on the scheduled Once.
func OnceValue[T any](f func() T) func() T {
	var o Once
	var v T
	return func() T {
		o.Do(func() { v = f() })
		return v
	}
}

func OnceValues[T1, T2 any](f func() (T1, T2)) func() (T1, T2) {
	var o Once
	var v1 T1
	var v2 T2
	return func() (T1, T2) {
		o.Do(func() { v1, v2 = f() })
		return v1, v2
	}
}

type Mutex struct {
	locked bool
}

func must(ok bool, what string) {
	if !ok && vsched.IsController() && !vsched.Ending() {
		panic("vsync: controller would block: " + what)
	}
}

func (m *Mutex) Lock() {
	if vsched.Scheduled() {
		vsched.Point(uintptr(unsafe.Pointer(m)), vsched.OpLock, func() bool { return !m.locked })
	} else {
		must(!m.locked, "Mutex.Lock on a held mutex")
	}
	m.locked = true
}

func (m *Mutex) TryLock() bool {
	if vsched.Scheduled() {
		vsched.Point(uintptr(unsafe.Pointer(m)), vsched.OpLock, nil)
	}
	if m.locked {
		return false
	}
	m.locked = true
	return true
}

func (m *Mutex) Unlock() {
	if !m.locked && !vsched.Ending() {
		panic("sync: unlock of unlocked mutex")
	}
	m.locked = false
}

// RWMutex models sync.RWMutex including writer preference: once a writer has
// announced itself new readers wait, so a recursive read lock can deadlock
// exactly as with the real one.
type RWMutex struct {
	readers int
	writer  bool
	wwait   int
}

func (m *RWMutex) RLock() {
	if vsched.Scheduled() {
		vsched.Point(uintptr(unsafe.Pointer(m)), vsched.OpRLock, func() bool { return !m.writer && m.wwait == 0 })
	} else {
		must(!m.writer, "RWMutex.RLock while write-locked")
	}
	m.readers++
}

func (m *RWMutex) TryRLock() bool {
	if vsched.Scheduled() {
		vsched.Point(uintptr(unsafe.Pointer(m)), vsched.OpRLock, nil)
	}
	if m.writer || m.wwait > 0 {
		return false
	}
	m.readers++
	return true
}

func (m *RWMutex) RUnlock() {
	if m.readers <= 0 && !vsched.Ending() {
		panic("sync: RUnlock of unlocked RWMutex")
	}
	m.readers--
}

func (m *RWMutex) Lock() {
	if vsched.Scheduled() {
		p := uintptr(unsafe.Pointer(m))
		vsched.Point(p, vsched.OpWAnnounce, nil)
		if m.writer || m.readers > 0 {
			m.wwait++
			vsched.Point(p, vsched.OpLock, func() bool { return !m.writer && m.readers == 0 })
			m.wwait--
		}
	} else {
		must(!m.writer && m.readers == 0, "RWMutex.Lock on a held lock")
	}
	m.writer = true
}

func (m *RWMutex) TryLock() bool {
	if vsched.Scheduled() {
		vsched.Point(uintptr(unsafe.Pointer(m)), vsched.OpLock, nil)
	}
	if m.writer || m.readers > 0 {
		return false
	}
	m.writer = true
	return true
}

func (m *RWMutex) Unlock() {
	if !m.writer && !vsched.Ending() {
		panic("sync: Unlock of unlocked RWMutex")
	}
	m.writer = false
}

func (m *RWMutex) RLocker() Locker { return (*rlocker)(m) }

type rlocker RWMutex

func (r *rlocker) Lock()   { (*RWMutex)(r).RLock() }
func (r *rlocker) Unlock() { (*RWMutex)(r).RUnlock() }

// Once models sync.Once: concurrent and recursive callers wait for the running call.
type Once struct {
	done    bool
	running bool
}

func (o *Once) Do(f func()) {
	if vsched.Scheduled() {
		vsched.Point(uintptr(unsafe.Pointer(o)), vsched.OpOnce, func() bool { return !o.running })
	} else {
		must(!o.running, "Once.Do while running")
	}
	if o.done {
		return
	}
	o.running = true
	defer func() {
		o.done = true
		o.running = false
	}()
	f()
}

// Pool is a deterministic LIFO pool (no GC-driven eviction).
type Pool struct {
	New   func() any
	mu    sync.Mutex
	items []any
}

func (p *Pool) Get() any {
	p.mu.Lock()
	if n := len(p.items); n > 0 {
		v := p.items[n-1]
		p.items = p.items[:n-1]
		p.mu.Unlock()
		return v
	}
	p.mu.Unlock()
	if p.New != nil {
		return p.New()
	}
	return nil
}

func (p *Pool) Put(v any) {
	p.mu.Lock()
	p.items = append(p.items, v)
	p.mu.Unlock()
}
