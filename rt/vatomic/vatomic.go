// Package vatomic replaces sync/atomic in instrumented code: same API, every
// operation preceded by a scheduling point.
package vatomic

import (
	"sync/atomic"
	"unsafe"

	"verifrt/vsched"
)

func pt(p unsafe.Pointer, op vsched.Op) {
	if vsched.Scheduled() {
		vsched.Point(uintptr(p), op, nil)
	}
}

type Int32 struct{ v atomic.Int32 }

func (x *Int32) Load() int32        { pt(unsafe.Pointer(x), vsched.OpLoad); return x.v.Load() }
func (x *Int32) Store(n int32)      { pt(unsafe.Pointer(x), vsched.OpStore); x.v.Store(n) }
func (x *Int32) Swap(n int32) int32 { pt(unsafe.Pointer(x), vsched.OpRMW); return x.v.Swap(n) }
func (x *Int32) Add(n int32) int32  { pt(unsafe.Pointer(x), vsched.OpRMW); return x.v.Add(n) }
func (x *Int32) CompareAndSwap(o, n int32) bool {
	pt(unsafe.Pointer(x), vsched.OpRMW)
	return x.v.CompareAndSwap(o, n)
}

func LoadInt32(p *int32) int32     { pt(unsafe.Pointer(p), vsched.OpLoad); return atomic.LoadInt32(p) }
func StoreInt32(p *int32, n int32) { pt(unsafe.Pointer(p), vsched.OpStore); atomic.StoreInt32(p, n) }
func SwapInt32(p *int32, n int32) int32 {
	pt(unsafe.Pointer(p), vsched.OpRMW)
	return atomic.SwapInt32(p, n)
}
func AddInt32(p *int32, n int32) int32 {
	pt(unsafe.Pointer(p), vsched.OpRMW)
	return atomic.AddInt32(p, n)
}
func CompareAndSwapInt32(p *int32, o, n int32) bool {
	pt(unsafe.Pointer(p), vsched.OpRMW)
	return atomic.CompareAndSwapInt32(p, o, n)
}

type Int64 struct{ v atomic.Int64 }

func (x *Int64) Load() int64        { pt(unsafe.Pointer(x), vsched.OpLoad); return x.v.Load() }
func (x *Int64) Store(n int64)      { pt(unsafe.Pointer(x), vsched.OpStore); x.v.Store(n) }
func (x *Int64) Swap(n int64) int64 { pt(unsafe.Pointer(x), vsched.OpRMW); return x.v.Swap(n) }
func (x *Int64) Add(n int64) int64  { pt(unsafe.Pointer(x), vsched.OpRMW); return x.v.Add(n) }
func (x *Int64) CompareAndSwap(o, n int64) bool {
	pt(unsafe.Pointer(x), vsched.OpRMW)
	return x.v.CompareAndSwap(o, n)
}

func LoadInt64(p *int64) int64     { pt(unsafe.Pointer(p), vsched.OpLoad); return atomic.LoadInt64(p) }
func StoreInt64(p *int64, n int64) { pt(unsafe.Pointer(p), vsched.OpStore); atomic.StoreInt64(p, n) }
func SwapInt64(p *int64, n int64) int64 {
	pt(unsafe.Pointer(p), vsched.OpRMW)
	return atomic.SwapInt64(p, n)
}
func AddInt64(p *int64, n int64) int64 {
	pt(unsafe.Pointer(p), vsched.OpRMW)
	return atomic.AddInt64(p, n)
}
func CompareAndSwapInt64(p *int64, o, n int64) bool {
	pt(unsafe.Pointer(p), vsched.OpRMW)
	return atomic.CompareAndSwapInt64(p, o, n)
}

type Uint32 struct{ v atomic.Uint32 }

func (x *Uint32) Load() uint32         { pt(unsafe.Pointer(x), vsched.OpLoad); return x.v.Load() }
func (x *Uint32) Store(n uint32)       { pt(unsafe.Pointer(x), vsched.OpStore); x.v.Store(n) }
func (x *Uint32) Swap(n uint32) uint32 { pt(unsafe.Pointer(x), vsched.OpRMW); return x.v.Swap(n) }
func (x *Uint32) Add(n uint32) uint32  { pt(unsafe.Pointer(x), vsched.OpRMW); return x.v.Add(n) }
func (x *Uint32) CompareAndSwap(o, n uint32) bool {
	pt(unsafe.Pointer(x), vsched.OpRMW)
	return x.v.CompareAndSwap(o, n)
}

func LoadUint32(p *uint32) uint32 { pt(unsafe.Pointer(p), vsched.OpLoad); return atomic.LoadUint32(p) }
func StoreUint32(p *uint32, n uint32) {
	pt(unsafe.Pointer(p), vsched.OpStore)
	atomic.StoreUint32(p, n)
}
func SwapUint32(p *uint32, n uint32) uint32 {
	pt(unsafe.Pointer(p), vsched.OpRMW)
	return atomic.SwapUint32(p, n)
}
func AddUint32(p *uint32, n uint32) uint32 {
	pt(unsafe.Pointer(p), vsched.OpRMW)
	return atomic.AddUint32(p, n)
}
func CompareAndSwapUint32(p *uint32, o, n uint32) bool {
	pt(unsafe.Pointer(p), vsched.OpRMW)
	return atomic.CompareAndSwapUint32(p, o, n)
}

type Uint64 struct{ v atomic.Uint64 }

func (x *Uint64) Load() uint64         { pt(unsafe.Pointer(x), vsched.OpLoad); return x.v.Load() }
func (x *Uint64) Store(n uint64)       { pt(unsafe.Pointer(x), vsched.OpStore); x.v.Store(n) }
func (x *Uint64) Swap(n uint64) uint64 { pt(unsafe.Pointer(x), vsched.OpRMW); return x.v.Swap(n) }
func (x *Uint64) Add(n uint64) uint64  { pt(unsafe.Pointer(x), vsched.OpRMW); return x.v.Add(n) }
func (x *Uint64) CompareAndSwap(o, n uint64) bool {
	pt(unsafe.Pointer(x), vsched.OpRMW)
	return x.v.CompareAndSwap(o, n)
}

func LoadUint64(p *uint64) uint64 { pt(unsafe.Pointer(p), vsched.OpLoad); return atomic.LoadUint64(p) }
func StoreUint64(p *uint64, n uint64) {
	pt(unsafe.Pointer(p), vsched.OpStore)
	atomic.StoreUint64(p, n)
}
func SwapUint64(p *uint64, n uint64) uint64 {
	pt(unsafe.Pointer(p), vsched.OpRMW)
	return atomic.SwapUint64(p, n)
}
func AddUint64(p *uint64, n uint64) uint64 {
	pt(unsafe.Pointer(p), vsched.OpRMW)
	return atomic.AddUint64(p, n)
}
func CompareAndSwapUint64(p *uint64, o, n uint64) bool {
	pt(unsafe.Pointer(p), vsched.OpRMW)
	return atomic.CompareAndSwapUint64(p, o, n)
}

type Uintptr struct{ v atomic.Uintptr }

func (x *Uintptr) Load() uintptr          { pt(unsafe.Pointer(x), vsched.OpLoad); return x.v.Load() }
func (x *Uintptr) Store(n uintptr)        { pt(unsafe.Pointer(x), vsched.OpStore); x.v.Store(n) }
func (x *Uintptr) Swap(n uintptr) uintptr { pt(unsafe.Pointer(x), vsched.OpRMW); return x.v.Swap(n) }
func (x *Uintptr) Add(n uintptr) uintptr  { pt(unsafe.Pointer(x), vsched.OpRMW); return x.v.Add(n) }
func (x *Uintptr) CompareAndSwap(o, n uintptr) bool {
	pt(unsafe.Pointer(x), vsched.OpRMW)
	return x.v.CompareAndSwap(o, n)
}

func LoadUintptr(p *uintptr) uintptr {
	pt(unsafe.Pointer(p), vsched.OpLoad)
	return atomic.LoadUintptr(p)
}
func StoreUintptr(p *uintptr, n uintptr) {
	pt(unsafe.Pointer(p), vsched.OpStore)
	atomic.StoreUintptr(p, n)
}
func SwapUintptr(p *uintptr, n uintptr) uintptr {
	pt(unsafe.Pointer(p), vsched.OpRMW)
	return atomic.SwapUintptr(p, n)
}
func AddUintptr(p *uintptr, n uintptr) uintptr {
	pt(unsafe.Pointer(p), vsched.OpRMW)
	return atomic.AddUintptr(p, n)
}
func CompareAndSwapUintptr(p *uintptr, o, n uintptr) bool {
	pt(unsafe.Pointer(p), vsched.OpRMW)
	return atomic.CompareAndSwapUintptr(p, o, n)
}

func (x *Int32) And(n int32) int32 { pt(unsafe.Pointer(x), vsched.OpRMW); return x.v.And(n) }
func (x *Int32) Or(n int32) int32  { pt(unsafe.Pointer(x), vsched.OpRMW); return x.v.Or(n) }

func (x *Int64) And(n int64) int64 { pt(unsafe.Pointer(x), vsched.OpRMW); return x.v.And(n) }
func (x *Int64) Or(n int64) int64  { pt(unsafe.Pointer(x), vsched.OpRMW); return x.v.Or(n) }

func (x *Uint32) And(n uint32) uint32 { pt(unsafe.Pointer(x), vsched.OpRMW); return x.v.And(n) }
func (x *Uint32) Or(n uint32) uint32  { pt(unsafe.Pointer(x), vsched.OpRMW); return x.v.Or(n) }

func (x *Uint64) And(n uint64) uint64 { pt(unsafe.Pointer(x), vsched.OpRMW); return x.v.And(n) }
func (x *Uint64) Or(n uint64) uint64  { pt(unsafe.Pointer(x), vsched.OpRMW); return x.v.Or(n) }

type Bool struct{ v atomic.Bool }

func (x *Bool) Load() bool       { pt(unsafe.Pointer(x), vsched.OpLoad); return x.v.Load() }
func (x *Bool) Store(n bool)     { pt(unsafe.Pointer(x), vsched.OpStore); x.v.Store(n) }
func (x *Bool) Swap(n bool) bool { pt(unsafe.Pointer(x), vsched.OpRMW); return x.v.Swap(n) }
func (x *Bool) CompareAndSwap(o, n bool) bool {
	pt(unsafe.Pointer(x), vsched.OpRMW)
	return x.v.CompareAndSwap(o, n)
}

type Pointer[T any] struct{ v atomic.Pointer[T] }

func (x *Pointer[T]) Load() *T     { pt(unsafe.Pointer(x), vsched.OpLoad); return x.v.Load() }
func (x *Pointer[T]) Store(n *T)   { pt(unsafe.Pointer(x), vsched.OpStore); x.v.Store(n) }
func (x *Pointer[T]) Swap(n *T) *T { pt(unsafe.Pointer(x), vsched.OpRMW); return x.v.Swap(n) }
func (x *Pointer[T]) CompareAndSwap(o, n *T) bool {
	pt(unsafe.Pointer(x), vsched.OpRMW)
	return x.v.CompareAndSwap(o, n)
}

type Value struct{ v atomic.Value }

func (x *Value) Load() any      { pt(unsafe.Pointer(x), vsched.OpLoad); return x.v.Load() }
func (x *Value) Store(n any)    { pt(unsafe.Pointer(x), vsched.OpStore); x.v.Store(n) }
func (x *Value) Swap(n any) any { pt(unsafe.Pointer(x), vsched.OpRMW); return x.v.Swap(n) }
func (x *Value) CompareAndSwap(o, n any) bool {
	pt(unsafe.Pointer(x), vsched.OpRMW)
	return x.v.CompareAndSwap(o, n)
}

func LoadPointer(p *unsafe.Pointer) unsafe.Pointer {
	pt(unsafe.Pointer(p), vsched.OpLoad)
	return atomic.LoadPointer(p)
}
func StorePointer(p *unsafe.Pointer, n unsafe.Pointer) {
	pt(unsafe.Pointer(p), vsched.OpStore)
	atomic.StorePointer(p, n)
}
func SwapPointer(p *unsafe.Pointer, n unsafe.Pointer) unsafe.Pointer {
	pt(unsafe.Pointer(p), vsched.OpRMW)
	return atomic.SwapPointer(p, n)
}
func CompareAndSwapPointer(p *unsafe.Pointer, o, n unsafe.Pointer) bool {
	pt(unsafe.Pointer(p), vsched.OpRMW)
	return atomic.CompareAndSwapPointer(p, o, n)
}

// And / Or (go1.23)
func AndInt32(p *int32, m int32) int32 {
	pt(unsafe.Pointer(p), vsched.OpRMW)
	return atomic.AndInt32(p, m)
}
func OrInt32(p *int32, m int32) int32 {
	pt(unsafe.Pointer(p), vsched.OpRMW)
	return atomic.OrInt32(p, m)
}
func AndInt64(p *int64, m int64) int64 {
	pt(unsafe.Pointer(p), vsched.OpRMW)
	return atomic.AndInt64(p, m)
}
func OrInt64(p *int64, m int64) int64 {
	pt(unsafe.Pointer(p), vsched.OpRMW)
	return atomic.OrInt64(p, m)
}
func AndUint32(p *uint32, m uint32) uint32 {
	pt(unsafe.Pointer(p), vsched.OpRMW)
	return atomic.AndUint32(p, m)
}
func OrUint32(p *uint32, m uint32) uint32 {
	pt(unsafe.Pointer(p), vsched.OpRMW)
	return atomic.OrUint32(p, m)
}
func AndUint64(p *uint64, m uint64) uint64 {
	pt(unsafe.Pointer(p), vsched.OpRMW)
	return atomic.AndUint64(p, m)
}
func OrUint64(p *uint64, m uint64) uint64 {
	pt(unsafe.Pointer(p), vsched.OpRMW)
	return atomic.OrUint64(p, m)
}
func AndUintptr(p *uintptr, m uintptr) uintptr {
	pt(unsafe.Pointer(p), vsched.OpRMW)
	return atomic.AndUintptr(p, m)
}
func OrUintptr(p *uintptr, m uintptr) uintptr {
	pt(unsafe.Pointer(p), vsched.OpRMW)
	return atomic.OrUintptr(p, m)
}
