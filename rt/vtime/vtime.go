// Package vtime replaces package time in instrumented code. Time itself is the
// synctest bubble's virtual clock; this package only makes timer operations
// scheduling points and tells the controller every armed deadline, so that it
// can advance the clock exactly to the next one and never past it.
package vtime

import (
	"time"
	"unsafe"

	"verifrt/vsched"
)

type (
	Duration   = time.Duration
	Time       = time.Time
	Month      = time.Month
	Weekday    = time.Weekday
	Location   = time.Location
	ParseError = time.ParseError
	Ticker     = time.Ticker
)

const (
	Nanosecond  = time.Nanosecond
	Microsecond = time.Microsecond
	Millisecond = time.Millisecond
	Second      = time.Second
	Minute      = time.Minute
	Hour        = time.Hour

	Layout      = time.Layout
	ANSIC       = time.ANSIC
	UnixDate    = time.UnixDate
	RubyDate    = time.RubyDate
	RFC822      = time.RFC822
	RFC822Z     = time.RFC822Z
	RFC850      = time.RFC850
	RFC1123     = time.RFC1123
	RFC1123Z    = time.RFC1123Z
	RFC3339     = time.RFC3339
	RFC3339Nano = time.RFC3339Nano
	Kitchen     = time.Kitchen
	Stamp       = time.Stamp
	StampMilli  = time.StampMilli
	StampMicro  = time.StampMicro
	StampNano   = time.StampNano
	DateTime    = time.DateTime
	DateOnly    = time.DateOnly
	TimeOnly    = time.TimeOnly

	January   = time.January
	February  = time.February
	March     = time.March
	April     = time.April
	May       = time.May
	June      = time.June
	July      = time.July
	August    = time.August
	September = time.September
	October   = time.October
	November  = time.November
	December  = time.December

	Sunday    = time.Sunday
	Monday    = time.Monday
	Tuesday   = time.Tuesday
	Wednesday = time.Wednesday
	Thursday  = time.Thursday
	Friday    = time.Friday
	Saturday  = time.Saturday
)

var (
	UTC   = time.UTC
	Local = time.Local
)

// wallSkew models the passage of wall-clock time while a thread is merely preempted (virtual time
// itself only advances when every thread is blocked): a harness thread adds to it as one of its
// scheduled steps, so that "the clock moved between reading it and taking the lock" is a schedule.
// Timers are not affected (they are monotonic).
var wallSkew time.Duration

func AddWallSkew(d Duration) { wallSkew += d }
func ResetWallSkew()         { wallSkew = 0 }

func Now() Time {
	if wallSkew != 0 {
		return time.Now().Add(wallSkew)
	}
	return time.Now()
}
func Since(t Time) Duration { return Now().Sub(t) }
func Until(t Time) Duration { return t.Sub(Now()) }
func Unix(s, ns int64) Time                    { return time.Unix(s, ns) }
func UnixMilli(ms int64) Time                  { return time.UnixMilli(ms) }
func UnixMicro(us int64) Time                  { return time.UnixMicro(us) }
func Parse(l, v string) (Time, error)          { return time.Parse(l, v) }
func ParseDuration(s string) (Duration, error) { return time.ParseDuration(s) }
func LoadLocation(n string) (*Location, error) { return time.LoadLocation(n) }
func FixedZone(n string, o int) *Location      { return time.FixedZone(n, o) }
func LoadLocationFromTZData(n string, d []byte) (*Location, error) {
	return time.LoadLocationFromTZData(n, d)
}
func NewTicker(d Duration) *Ticker             { return time.NewTicker(d) }
func Tick(d Duration) <-chan Time              { return time.Tick(d) }
func ParseInLocation(l, v string, loc *Location) (Time, error) {
	return time.ParseInLocation(l, v, loc)
}
func Date(y int, m Month, d, h, mi, s, ns int, loc *Location) Time {
	return time.Date(y, m, d, h, mi, s, ns, loc)
}

func Sleep(d Duration) {
	if vsched.Scheduled() {
		vsched.Sleep(d)
		return
	}
	time.Sleep(d)
}

// Timer wraps a (bubble) time.Timer.
type Timer struct {
	C     <-chan Time
	r     *time.Timer
	at    Time
	armed bool // a value will be or is available on C and has not been received
	fn    bool
}

// Fired reports whether a value is waiting on C (used by SelectRecv's readiness probe).
func (t *Timer) Fired() bool { return t.armed && !time.Now().Before(t.at) }

// Consumed is called by the channel wrappers after a receive from C.
func (t *Timer) Consumed() { t.armed = false }

func (t *Timer) arm(d Duration) {
	t.at = time.Now().Add(d)
	t.armed = true
	vsched.SetDeadline(t, t.at)
}

func (t *Timer) register() {
	if x := vsched.Cur(); x != nil && t.C != nil {
		x.Aux.Store(chanPtr(t.C), t)
	}
}

func chanPtr(c <-chan Time) uintptr { return *(*uintptr)(unsafe.Pointer(&c)) }

func NewTimer(d Duration) *Timer {
	r := time.NewTimer(d)
	t := &Timer{C: r.C, r: r}
	t.register()
	t.arm(d)
	return t
}

func After(d Duration) <-chan Time { return NewTimer(d).C }

func AfterFunc(d Duration, f func()) *Timer {
	t := &Timer{fn: true}
	t.r = time.AfterFunc(d, func() {
		t.armed = false
		vsched.GoNamed("afterfunc", f)
	})
	t.arm(d)
	return t
}

func (t *Timer) Stop() bool {
	if vsched.Scheduled() {
		vsched.Point(uintptr(unsafe.Pointer(t)), vsched.OpTimer, nil)
	}
	ok := t.r.Stop()
	t.armed = false
	vsched.ClearDeadline(t)
	return ok
}

func (t *Timer) Reset(d Duration) bool {
	if vsched.Scheduled() {
		vsched.Point(uintptr(unsafe.Pointer(t)), vsched.OpTimer, nil)
	}
	ok := t.r.Reset(d)
	t.arm(d)
	return ok
}
