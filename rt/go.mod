module verifrt

go 1.26
