#!/bin/bash
# check.sh <property> <quick|thorough> [--replay file] [--unit prefix] [--budget dur]
cd "$(dirname "$0")"
export GOFLAGS=-mod=mod GOPROXY=off GOSUMDB=off GOTOOLCHAIN=local
if [ ! -x bin/vcheck ] || [ ! -x bin/instrument ]; then
  mkdir -p bin
  (cd tools && go1.26.8 build -o ../bin/instrument ./instrument && go1.26.8 build -o ../bin/vcheck ./vcheck) || { echo "INTERNAL-ERROR cannot build tools"; exit 2; }
fi
exec ./bin/vcheck "$@"
