#!/bin/bash
# runall.sh [tier] : runs every claimed check on the current tree and prints one line each
cd "$(dirname "$0")/.."
TIER=${1:-quick}
for p in $(python3 -c "import json;print(' '.join(c['property_id'] for c in json.load(open('MANIFEST.json'))['checks']))"); do
  s=$(date +%s)
  out=$(./check.sh $p $TIER 2>&1); code=$?
  e=$(date +%s)
  echo "$p exit=$code $((e-s))s $(echo "$out" | grep -c '^KNOWN-FINDING') known; $(echo "$out" | grep '^vcheck' | cut -c1-160)"
  echo "$out" | grep -E "^VIOLATION|^INTERNAL" | head -5
done
