#!/usr/bin/env python3
# Regenerates /verif/MANIFEST.json from the table below (claimed checks) and properties.jsonl.
import json
props=[json.loads(l) for l in open('/verif/properties.jsonl')]
E1="E1 vsched"; E2="E2 venum"
T_E1="stateless model checking of the implementation: controlled scheduler over instrumented sync/atomic/time/channel operations in a synctest bubble, preemption-bounded exhaustive DFS over schedules"
T_E2="bounded exhaustive enumeration of inputs / operation sequences / configurations on the real objects (deterministic runtime, default schedule) against an independent reference model"
claimed={
"C19":dict(engine=E1+" + "+E2, tech=T_E1+"; "+T_E2,
  text="Timers: all call sequences up to length 4 (quick) / 5 (thorough, each also under every schedule with <=1 preemption) over {advance 1, advance 2, Refresh, Stop, ClearTimeout} after SetTimeout/SetInterval, and all singles/pairs of concurrent Stop/Refresh/Clear issued before the due instant, at it and at a later tick, under every interleaving with the timer goroutine up to 2-3 (quick) / 3-5 (thorough) preemptions; oracle = reference timer with co-instant events linearised in any order: callback instants exact, operations return, no callback after the final cancel, no timer goroutine left after 5 more periods.",
  note="Virtual clock (synctest) and scheduler own all nondeterminism of utils/timer.go; Go runtime timer semantics (go1.26.8, synchronous timer channels) are the real ones. Refresh after cancellation is excluded as unspecified."),
"C01":dict(engine=E1+" + "+E2, tech=T_E1+" with dynamic partial-order reduction; "+T_E2,
  text="Outbound ordering: (E1) a session on polling / websocket (thorough: polling v3) with a protocol-conformant client actor, one or two application sender goroutines with two sends each, optionally a graceful close, every interleaving with the poll cycle, send goroutines and context watchers up to 1 (thorough 2) preemptions; the client's decoded receive sequence must contain each sender's messages as a prefix of its send sequence, no duplicates, same kind and bytes, and everything when the session stays open. (E2) sequential sweep of batch compositions x transports x revisions x b64 x compression settings x per-packet options, decoded with the independent codec.",
  note="Upgrade in the middle of the stream is covered by the C08 scenarios, whose oracle includes this one."),
"C12":dict(engine=E1, tech=T_E1+" with dynamic partial-order reduction",
  text="Orderly close: Close(false), Close(true), Server.Close relative to a sender with two sends, with a responsive client actor and with a silent client, on polling and websocket, and a discarding close one second after a graceful one; every interleaving up to 1 (thorough 2) preemptions. Oracle: every Send that had returned before Close(false) was called reaches the client before the close; exactly one close event; reason forced close with a responsive client; closed within the close timeout / heartbeat deadline with a silent one; no request left outstanding; once a discarding close has returned and the server is quiescent the session is closed and the table empty.",
  note="Promptness of a graceful close is only required up to the documented bounds (30s close timeout, heartbeat deadline)."),
"C18":dict(engine=E1, tech=T_E1+" with dynamic partial-order reduction",
  text="Flush/drain/callbacks: one or two sender goroutines with callbacks against poll cycles / websocket send goroutines, with and without a close; oracle on the recorded events: flush and drain alternate on session and server, flush carries only packets that had a packetCreate, no packet flushed twice, one packetCreate per accepted Send, each callback at most once, after the flush event of its packet's batch, in send order per sender, not at a later instant than the close. Re-entrancy matrix: every session/server event x {Send, Close(false), Close(true)} called from its listener and from a send callback must return (a thread left waiting for a lock it holds is the witness).",
  note="Callbacks are not required to run eventually (the statement does not promise it)."),
"C03":dict(engine=E1, tech=T_E1+" with dynamic partial-order reduction",
  text="Lifecycle: one real session per execution on polling (poll pending / not), polling v3 (thorough) and websocket; action sets = every close cause singly and in pairs (thorough: triples) plus neutral traffic (Send, client message, poll), also with a protocol-conformant client actor that keeps polling and answers pings; all actions started concurrently and every interleaving explored up to 2 preemptions for singles/pairs (1 for triples/actor; thorough 3/2), <=4 (6) context switches off the default schedule, with DPOR; sequential epilogue (Send, POST, poll begun after the close) and run to t=110s virtual. Oracle: ready states non-decreasing at every event and at the end, session handed over open, exactly one close event, its reason the documented reason of an injected cause (combinations included), no event after close except same-instant continuations of actions begun before it, responsive client never closed without a cause.",
  note="Close reasons of cause combinations (overlapping requests, application close during a data request, write to a connection the peer already closed) are accepted as transport error, as upstream Engine.IO reports them. WebTransport sessions are covered under C08/C12."),
"C04":dict(engine=E1, tech=T_E1+" with dynamic partial-order reduction",
  text="Registry: the same executions as C03; at every quiescent point of every explored execution (no thread enabled, clock about to advance) the client table, ClientsCount() and the set of sessions that are not closed must coincide, keys equal session ids, ids are URL-safe; after the close a POST and a GET naming the closed id must be answered 400 code 1.",
  note="Sessions dying while their handshake is still being completed are explored in the handshake-race units; id uniqueness over a run is checked on all ids seen."),
"C11":dict(engine=E1, tech=T_E1+" with dynamic partial-order reduction",
  text="Polling discipline: the C03 executions on polling plus slow-upload scenarios (a data request whose body is still being uploaded when a second one arrives); per request: handler returned (a request left blocked after the session closed is a violation), at most one WriteHeader, a response written unless the peer aborted, second poll while one is outstanding refused with 400, data request during another one's upload refused with 400 and session closed with transport error, ok only after the payload's message events in histories where the session stays open.",
  note="Overlap is asserted only where it is certain from the construction of the scenario (a poll held by the set-up; an upload held open on the virtual clock), never from submission order."),
"C07":dict(engine=E1, tech=T_E1+" with dynamic partial-order reduction",
  text="Heartbeat: revision-4 sessions on polling and websocket with (interval,timeout) in {(2,1),(3,2)} (thorough: +(2,3)) grid units; the client answers the k-th ping after every delay in {0..T+1, never} over 2 (thorough 3) ping cycles, optionally an unsolicited/duplicated pong at every grid instant, an application Send at the ping instant or at the deadline; revision-3 sessions with client pings at gaps {1, I+T-1, I+T, I+T+1}; every interleaving of the co-instant threads (timer goroutines, handler, client) up to 1 (thorough 2) preemptions (polling: 0/1). Oracle = reference timeline computed from the statement: instants of server pings and of the close are exact, reason ping timeout, ties (pong and deadline at the same instant) accepted in either order. Wrong-direction heartbeat on each revision/transport: exactly one close with transport error, no heartbeat event, a second session unaffected.",
  note="Upgrade completion between a ping and its deadline is excluded as the statement says. Interval/timeout values are small grid multiples; the timers are the real utils.Timer on the virtual clock."),
"C06":dict(engine=E2, tech=T_E2,
  text="Handshake: product of ping interval x ping timeout x max payload x 7 transport sets x allowUpgrades x allowEIO3 x initial packet {none,text,binary} x cookie, each server taking three consecutive handshakes over the admitted carriers (polling xhr/b64/jsonp, websocket) and revisions; oracle from the statement: one connection event and registry entry per handshake, open packet first with sid/intervals/maxPayload/upgrades-as-a-set, initial packet as first message of every session, Protocol()/payload format by revision, decoded with an independent codec.",
  note="WebTransport handshakes are exercised under C08/C09 scenarios, not here; option values outside the listed alphabets are not covered."),
}
m={
 "version":1,
 "setup_cmd":"./setup.sh",
 "hooks":{"guard":"verif","enable":"no source hooks: every check instruments the current /repo tree into a scratch overlay and builds with `go1.26.8 test -c -tags verif -overlay <scratch>/overlay.json` (DESIGN.md §2)","baseline_off_cmd":"cd /repo && go test -mod=mod -vet=off -count=1 ./...","source_commits":[],"add_only":True},
 "engines":[
  {"name":E1,"path":"rt/vsched","serves_properties":sorted(k for k,v in claimed.items() if E1 in v['engine']),"kind_free_text":"stateless model checker of the implementation: deterministic cooperative scheduler over shimmed sync/atomic/time and rewritten channel operations inside a testing/synctest bubble; DFS over scheduling and environment choices with iterative preemption/deviation bounding; replayable choice lists"},
  {"name":E2,"path":"harness","serves_properties":sorted(k for k,v in claimed.items() if E2 in v['engine']),"kind_free_text":"bounded exhaustive enumeration of operation sequences / inputs / configurations against reference models written from the protocol text, executed on the real objects under the same deterministic runtime"}],
 "checks":[], "not_applicable":[],
 "notes":"See DESIGN.md. Every check is ./check.sh <id> <tier>; it re-instruments and rebuilds from /repo's current working tree on each run. Genuine defects found are either repaired in /repo ('fix:' commits) or listed in known_findings.json."
}
for p in props:
    pid=p['id']
    if pid in claimed:
        c=claimed[pid]
        m['checks'].append({"property_id":pid,"quick_cmd":f"./check.sh {pid} quick","thorough_cmd":f"./check.sh {pid} thorough","evidence_file":f"/verif/evidence/{pid}.json","replay_cmd_template":f"./check.sh {pid} quick --replay {{path}}","engine":c['engine'],"level_claimed":{"category":"model_checking","text":c['text'],"design_ref":"DESIGN.md §6 "+pid},"level_note":c['note'],"technique":c['tech']})
    else:
        m['not_applicable'].append({"property_id":pid,"reason":"check not built yet in this round (planned: DESIGN.md §6); not claimed"})
json.dump(m,open('/verif/MANIFEST.json','w'),indent=1)
print("claimed:",sorted(claimed))
