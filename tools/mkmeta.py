#!/usr/bin/env python3
# Writes seeded/<id>/meta.json from the sub-agent's meta.orig.json, the confirmation and the last sweep.
import json, os, glob, subprocess
res = {}
if os.path.exists('/verif/seeded/RESULTS.txt'):
    for l in open('/verif/seeded/RESULTS.txt'):
        f = l.split(None, 3)
        if len(f) >= 3 and f[0] != 'SWEEPDONE':
            res[f[0]] = (f[2], f[3].strip(' |\n') if len(f) > 3 else '')
notes = json.load(open('/verif/seeded/NOTES.json')) if os.path.exists('/verif/seeded/NOTES.json') else {}
head = subprocess.check_output('git -C /repo log --oneline | head -1', shell=True).decode().split()[0]
for d in sorted(glob.glob('/verif/seeded/*/')):
    mid = os.path.basename(d.rstrip('/'))
    o = {}
    if os.path.exists(d + 'meta.orig.json'):
        try:
            o = json.load(open(d + 'meta.orig.json'))
        except Exception:
            o = {}
    r = res.get(mid, ('?', ''))
    m = {
        "id": mid,
        "property": mid.split('-')[0],
        "breaks": (o.get('summary') or o.get('breaks', '')),
        "needs_to_manifest": (o.get('needs') or o.get('needs_to_manifest', '')),
        "demonstration": "demo_test.go (package named in its first line; copied into that package of a scratch worktree)",
        "confirmed": "tools/confirm_mutant.sh %s: in a scratch worktree of /repo: patch applies, `go build ./...` and the pinned suite `go test -vet=off -count=1 ./...` pass with it, the demonstration fails with the patch and passes without it" % mid,
        "author_verification": (o.get('verified') or o.get('author_verification', '')),
        "check_run": "tools/wtsweep.sh %s (scratch worktree of /repo %s with patch.diff applied; ./check.sh %s quick from a scratch copy of /verif with VERIF_REPO pointing at it) - equivalent to tools/trymutant.sh, which applies the patch to /repo itself and undoes it" % (mid, head, mid.split('-')[0]),
        "check_result": {"exit=1": "DETECTED (exit 1, VIOLATION line)", "exit=0": "MISSED (exit 0)", "NOAPPLY": "patch no longer applies at HEAD"}.get(r[0], r[0]),
        "first_violation": r[1],
        "notes": notes.get(mid, ''),
    }
    json.dump(m, open(d + 'meta.json', 'w'), indent=1)
print("meta.json written for", len(glob.glob('/verif/seeded/*/')), "seeded changes")
