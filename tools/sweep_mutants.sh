#!/bin/bash
# sweep_mutants.sh : applies every seeded mutant to /repo in turn, runs the quick check of its property, undoes it.
# Writes one line per mutant to /verif/seeded/RESULTS.txt
cd /verif
: > seeded/RESULTS.txt
for d in seeded/*/; do
  id=$(basename $d); prop=${id%%-*}
  [ -f $d/patch.diff ] || continue
  out=$(tools/trymutant.sh /verif/$d/patch.diff $prop 2>&1)
  if echo "$out" | grep -q "PATCH DOES NOT APPLY"; then echo "$id $prop NOAPPLY" >> seeded/RESULTS.txt; continue; fi
  code=$(echo "$out" | grep -oE "exit=[0-9]+" | head -1)
  fp=$(echo "$out" | grep -E "^  [a-z-]+\[" | grep -v KNOWN | head -1 | cut -c1-200)
  echo "$id $prop $code | $fp" >> seeded/RESULTS.txt
done
echo SWEEPDONE >> seeded/RESULTS.txt
