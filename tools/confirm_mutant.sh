#!/bin/bash
# confirm_mutant.sh <mutant-id> <src-dir> [ported-patch]
# In a scratch worktree of /repo HEAD: the patch applies, builds, passes the pinned suite; the
# demonstration fails with it and passes without it. Writes /verif/seeded/<id>/ on success.
ID=$1; SRC=$2; PATCH=${3:-$SRC/patch.diff}
WT=/tmp/confirm-wt-$ID
export GOFLAGS=-mod=mod GOPROXY=off
rm -rf $WT; git -C /repo worktree prune; git -C /repo worktree add -q --detach $WT HEAD || exit 2
cleanup() { git -C /repo worktree remove --force $WT 2>/dev/null; rm -rf $WT; }
trap cleanup EXIT
cd $WT
if ! git apply --check $PATCH 2>/dev/null; then echo "$ID: PATCH DOES NOT APPLY at HEAD"; exit 3; fi
git apply $PATCH
if ! go build ./... >/tmp/confirm-$ID.log 2>&1; then echo "$ID: BUILD FAILS"; exit 4; fi
if ! go test -vet=off -count=1 ./... >>/tmp/confirm-$ID.log 2>&1; then echo "$ID: SUITE FAILS with patch"; exit 5; fi
PKG=$(grep -m1 -oE "^package [a-z_]+" $SRC/demo_test.go | awk '{print $2}' | sed 's/_test$//')
[ -d "$PKG" ] || PKG=engine
cp $SRC/demo_test.go $PKG/zz_demo_test.go
RX=$(grep -oE "^func (Test[A-Za-z0-9_]+)" $SRC/demo_test.go | awk '{print $2}' | paste -sd'|')
GO=go
if grep -q "go:build go1.25" $SRC/demo_test.go; then GO="env GOTOOLCHAIN=local GOSUMDB=off go1.26.8"; fi
$GO test -vet=off -count=1 -run "^($RX)\$" ./$PKG/ >/tmp/confirm-$ID.with.log 2>&1; W=$?
git apply -R $PATCH
$GO test -vet=off -count=1 -run "^($RX)\$" ./$PKG/ >/tmp/confirm-$ID.without.log 2>&1; WO=$?
echo "$ID: pkg=$PKG tests=$RX with-patch-exit=$W without-patch-exit=$WO"
if [ $W -ne 0 ] && [ $WO -eq 0 ]; then
  mkdir -p /verif/seeded/$ID
  cp $PATCH /verif/seeded/$ID/patch.diff; cp $SRC/demo_test.go /verif/seeded/$ID/demo_test.go; cp $SRC/meta.json /verif/seeded/$ID/meta.orig.json
  echo "$ID: CONFIRMED"
else
  echo "$ID: NOT CONFIRMED"; tail -5 /tmp/confirm-$ID.with.log; tail -5 /tmp/confirm-$ID.without.log
fi
