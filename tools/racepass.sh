#!/bin/bash
# racepass.sh : auxiliary, NOT a check. Runs racepass/ free-running under the Go race detector against the
# current /repo tree and writes race_report.json (read by vcheck into the assumptions of every evidence file).
cd "$(dirname "$0")/.."
export GOFLAGS=-mod=mod GOPROXY=off GOSUMDB=off GOTOOLCHAIN=local
cp /repo/go.sum racepass/go.sum
out=$(cd racepass && go1.26.8 test -race -count=${1:-2} . 2>&1)
n=$(echo "$out" | grep -c "WARNING: DATA RACE")
python3 - "$n" <<PY
import json,sys,re,subprocess
out = """$(echo "$out" | grep -A14 "WARNING: DATA RACE" | grep -E "^  [a-z].*engine.io/v2|/repo/" | head -200 | sed 's/"/\\"/g')"""
sites = sorted(set(l.strip() for l in out.split("\n") if "/repo/" in l))
head = subprocess.check_output("git -C /repo log --oneline | head -1", shell=True).decode().split()[0]
json.dump({"repo_head": head, "races_reported": int(sys.argv[1]), "sites": sites[:40],
           "what": "racepass/: polling, websocket and upgrade sessions with concurrent senders, pollers, closers and shutdown, real goroutines under -race (sampling; auxiliary to the checks)"},
          open("race_report.json", "w"), indent=1)
print("race pass: %s data race report(s)" % sys.argv[1])
PY
