// vcheck is the driver of every registered check: it instruments the current
// /repo working tree into a scratch directory, builds the harness against it,
// runs the property's units in parallel worker processes, merges their results
// into /verif/evidence/<id>.json, compares findings with known_findings.json and
// sets the exit code (0 held / 1 VIOLATION / 2 internal error).
package main

import (
	"bufio"
	"bytes"
	"context"
	"crypto/sha1"
	"encoding/json"
	"fmt"
	"os"
	"os/exec"
	"path/filepath"
	"runtime"
	"sort"
	"regexp"
	"strconv"
	"strings"
	"sync"
	"time"
)

// repoDir is the tree under verification: /repo, or $VERIF_REPO (a snapshot of it for background sweeps).
var repoDir = func() string {
	if d := os.Getenv("VERIF_REPO"); d != "" {
		return d
	}
	return "/repo"
}()

// verif is the root of the verification tree: the directory check.sh lives in (its working directory).
var verif = func() string {
	if d, err := os.Getwd(); err == nil {
		if _, err := os.Stat(filepath.Join(d, "harness", "go.mod")); err == nil {
			return d
		}
	}
	return "/verif"
}()

type Finding struct {
	Property    string          `json:"property"`
	Unit        string          `json:"unit"`
	Scenario    string          `json:"scenario,omitempty"`
	Fingerprint string          `json:"fingerprint"`
	Failures    []string        `json:"failures"`
	Choices     []int           `json:"choices,omitempty"`
	Cost        int             `json:"cost"`
	Stable      bool            `json:"stable"`
	Count       int64           `json:"count"`
	Steps       json.RawMessage `json:"steps,omitempty"`
}

type UnitResult struct {
	Property       string           `json:"property"`
	Unit           string           `json:"unit"`
	Execs          int64            `json:"execs"`
	States         int64            `json:"states"`
	Transitions    int64            `json:"transitions"`
	Distinct       int64            `json:"distinct"`
	Outcomes       map[string]int64 `json:"outcomes"`
	Findings       []*Finding       `json:"findings"`
	Samples        []any            `json:"samples"`
	Exhaustive     bool             `json:"exhaustive"`
	Bound          int              `json:"bound"`
	BoundCompleted int              `json:"bound_completed"`
	Stopped        []string         `json:"stopped"`
	CapsHit        map[string]int64 `json:"caps_hit"`
	Notes          []string         `json:"notes"`
	Internal       []string         `json:"internal_errors"`
	Leftover       int64            `json:"leftover_goroutines"`
	WallS          float64          `json:"wall_s"`
}

type Known struct {
	Status      string `json:"status"` // "known" | "fixed"
	Property    string `json:"property"`
	Fingerprint string `json:"fingerprint"`
	What        string `json:"what"`
	Commit      string `json:"commit,omitempty"`
	// MinCost: the entry covers the finding only when its cheapest witness needs at
	// least this many preemptions (a cheaper witness is a different, unlisted violation).
	MinCost int `json:"min_cost,omitempty"`
	// FingerprintPattern (instead of an exact Fingerprint): a regular expression the whole fingerprint has to
	// match; used where one call-site pair fails under a family of action sets that differ by bystander actions.
	FingerprintPattern string `json:"fingerprint_pattern,omitempty"`
}

func goEnv() []string {
	env := os.Environ()
	env = append(env, "GOFLAGS=-mod=mod", "GOPROXY=off", "GOSUMDB=off", "GOTOOLCHAIN=local", "GOMAXPROCS=1")
	return env
}

func run(dir string, env []string, name string, args ...string) (string, error) {
	cmd := exec.Command(name, args...)
	cmd.Dir = dir
	cmd.Env = env
	var buf bytes.Buffer
	cmd.Stdout, cmd.Stderr = &buf, &buf
	err := cmd.Run()
	return buf.String(), err
}

func die(code int, format string, a ...any) {
	fmt.Printf(format+"\n", a...)
	os.Exit(code)
}

func main() {
	if len(os.Args) < 3 {
		die(2, "usage: vcheck <property> <quick|thorough> [--replay file] [--unit prefix] [--budget dur]")
	}
	prop, tier := os.Args[1], os.Args[2]
	if t := os.Getenv("VERIF_TIER"); t == "quick" || t == "thorough" {
		_ = t // the tier given on the command line wins; VERIF_TIER is informational
	}
	var replay, unitFilter, budget string
	for i := 3; i < len(os.Args); i++ {
		switch os.Args[i] {
		case "--replay":
			i++
			replay, _ = filepath.Abs(os.Args[i])
		case "--unit":
			i++
			unitFilter = os.Args[i]
		case "--budget":
			i++
			budget = os.Args[i]
		}
	}
	budgetGiven := budget != ""
	seed, _ := strconv.Atoi(os.Getenv("VERIF_SEED"))
	start := time.Now()

	scratch, err := os.MkdirTemp("", "vcheck-"+prop+"-")
	if err != nil {
		die(2, "INTERNAL-ERROR mktemp: %v", err)
	}
	defer os.RemoveAll(scratch)
	cleanupAndExit := func(code int) { os.RemoveAll(scratch); os.Exit(code) }

	// 1. instrument the current working tree of /repo
	instr := filepath.Join(verif, "bin", "instrument")
	if _, err := os.Stat(instr); err != nil {
		if out, err := run(filepath.Join(verif, "tools"), goEnv(), "go1.26.8", "build", "-o", instr, "./instrument"); err != nil {
			fmt.Print(out)
			die(2, "INTERNAL-ERROR cannot build instrumenter")
		}
	}
	// loops of the parser dependency are counted too (work bound / hang detection of C09): files under
	// the module cache cannot be overlaid, so the module is copied to the scratch directory and the
	// build uses a generated go.mod that replaces it with the copy
	hdir := filepath.Join(verif, "harness")
	if b, err := os.ReadFile(filepath.Join(repoDir, "go.sum")); err == nil {
		os.WriteFile(filepath.Join(hdir, "go.sum"), b, 0o644)
	}
	tickDirs := ""
	modfile := ""
	if d, err := run(hdir, goEnv(), "go1.26.8", "list", "-m", "-f", "{{.Dir}}", "github.com/zishang520/engine.io-go-parser"); err == nil {
		if d = strings.TrimSpace(d); d != "" && !strings.Contains(d, "\n") {
			pm := filepath.Join(scratch, "parsermod")
			if out, err := run(verif, goEnv(), "cp", "-r", d, pm); err != nil {
				fmt.Print(out)
			} else {
				run(verif, goEnv(), "chmod", "-R", "u+w", pm)
				tickDirs = filepath.Join(pm, "parser") + "," + filepath.Join(pm, "utils")
				gm, _ := os.ReadFile(filepath.Join(hdir, "go.mod"))
				g := strings.Replace(string(gm), "replace verifrt => ../rt", "replace verifrt => "+filepath.Join(verif, "rt"), 1)
				g = strings.Replace(g, "replace github.com/zishang520/engine.io/v2 => /repo", "replace github.com/zishang520/engine.io/v2 => "+repoDir, 1)
				g += "\nreplace github.com/zishang520/engine.io-go-parser => " + pm + "\n"
				modfile = filepath.Join(scratch, "go.mod")
				os.WriteFile(modfile, []byte(g), 0o644)
				if b, err := os.ReadFile(filepath.Join(hdir, "go.sum")); err == nil {
					os.WriteFile(filepath.Join(scratch, "go.sum"), b, 0o644)
				}
			}
		}
	}
	if out, err := run(verif, goEnv(), instr, "-repo", repoDir, "-out", scratch, "-tick", tickDirs); err != nil {
		fmt.Print(out)
		fmt.Printf("INTERNAL-ERROR instrumenter failed on the current /repo tree\n")
		cleanupAndExit(2)
	}
	// 2. build the harness against it
	bin := filepath.Join(scratch, "harness.test")
	bargs := []string{"test", "-c", "-tags", "verif", "-overlay", filepath.Join(scratch, "overlay.json"), "-vet=off", "-o", bin}
	if modfile != "" {
		bargs = append(bargs, "-modfile", modfile)
	}
	bargs = append(bargs, ".")
	if out, err := run(hdir, goEnv(), "go1.26.8", bargs...); err != nil {
		fmt.Print(out)
		fmt.Printf("INTERNAL-ERROR harness does not build against the current /repo tree\n")
		cleanupAndExit(2)
	}
	if prop == "--warm" {
		fmt.Println("build ok")
		cleanupAndExit(0)
	}
	buildS := time.Since(start).Seconds()

	if replay != "" {
		cmd := exec.Command(bin, "-test.run", "^TestCheck$", "-test.timeout", "0", "-vprop", prop, "-vtier", tier, "-vreplay", replay)
		cmd.Env = goEnv()
		cmd.Stdout, cmd.Stderr = os.Stdout, os.Stderr
		cmd.Run()
		cleanupAndExit(0)
	}

	// 3. list units, run each in its own worker process, 16 at a time
	out, err := run(hdir, goEnv(), bin, "-test.run", "^TestCheck$", "-vprop", prop, "-vtier", tier, "-vlist")
	if err != nil {
		fmt.Print(out)
		fmt.Printf("INTERNAL-ERROR cannot list units\n")
		cleanupAndExit(2)
	}
	type job struct {
		unit          string
		shard, shards int
	}
	var jobs []job
	sc := bufio.NewScanner(strings.NewReader(out))
	for sc.Scan() {
		f := strings.Fields(sc.Text())
		if len(f) == 3 && f[0] == prop {
			if unitFilter != "" && !strings.HasPrefix(f[1], unitFilter) {
				continue
			}
			n, _ := strconv.Atoi(f[2])
			if n < 1 {
				n = 1
			}
			for i := 0; i < n; i++ {
				jobs = append(jobs, job{f[1], i, n})
			}
		}
	}
	if len(jobs) == 0 {
		fmt.Printf("INTERNAL-ERROR property %s has no units in tier %s\n", prop, tier)
		cleanupAndExit(2)
	}
	par := runtime.NumCPU()
	if par > 16 {
		par = 16
	}
	if !budgetGiven {
		// wall budget per exploration (one scenario), scaled so that the whole check stays within about
		// 12 minutes (quick) / 15 minutes (thorough) of 16-core time per unit share: a level that does not finish stops the scenario at the
		// last completed preemption bound; reported as exhaustive:false, never as a failure
		total := 12 * time.Minute
		if tier == "thorough" {
			total = 15 * time.Minute
		}
		per := total * time.Duration(par) / time.Duration(len(jobs))
		if floor := 90 * time.Second; tier != "thorough" && per < floor {
			per = floor // no quick unit is cut short below a minute and a half
		}
		if per < 20*time.Second {
			per = 20 * time.Second
		}
		if per > 8*time.Minute {
			per = 8 * time.Minute
		}
		if tier != "thorough" && per > 3*time.Minute {
			per = 3 * time.Minute
		}
		budget = per.String()
	}
	watchdog := 20 * time.Minute
	if tier == "thorough" {
		watchdog = 90 * time.Minute
	}
	var mu sync.Mutex
	var results []*UnitResult
	var internal []string
	var stalls []string
	sem := make(chan struct{}, par)
	var wg sync.WaitGroup
	for ji, j := range jobs {
		wg.Add(1)
		sem <- struct{}{}
		go func(ji int, j job) {
			defer wg.Done()
			defer func() { <-sem }()
			of := filepath.Join(scratch, fmt.Sprintf("out-%d.jsonl", ji))
			ctx, cancel := context.WithTimeout(context.Background(), watchdog)
			defer cancel()
			args := []string{"-test.run", "^TestCheck$", "-test.timeout", "0", "-vprop", prop, "-vtier", tier, "-vexact", j.unit,
				"-vshard", strconv.Itoa(j.shard), "-vshards", strconv.Itoa(j.shards), "-vout", of}
			if budget != "" {
				args = append(args, "-vbudget", budget)
			}
			cmd := exec.CommandContext(ctx, bin, args...)
			cmd.Env = goEnv()
			cmd.Dir = hdir
			var buf bytes.Buffer
			cmd.Stdout, cmd.Stderr = &buf, &buf
			err := cmd.Run()
			mu.Lock()
			defer mu.Unlock()
			if ctx.Err() != nil {
				stalls = append(stalls, fmt.Sprintf("unit %s shard %d/%d did not finish within %v", j.unit, j.shard, j.shards, watchdog))
				return
			}
			if err != nil {
				tail := buf.String()
				if len(tail) > 4000 {
					tail = tail[len(tail)-4000:]
				}
				internal = append(internal, fmt.Sprintf("worker for unit %s failed: %v\n%s", j.unit, err, tail))
				return
			}
			b, _ := os.ReadFile(of)
			for _, line := range bytes.Split(b, []byte("\n")) {
				if len(bytes.TrimSpace(line)) == 0 {
					continue
				}
				var r UnitResult
				if err := json.Unmarshal(line, &r); err != nil {
					internal = append(internal, "bad worker output: "+err.Error())
					continue
				}
				results = append(results, &r)
			}
		}(ji, j)
	}
	wg.Wait()
	sort.Slice(results, func(i, j int) bool { return results[i].Unit < results[j].Unit })

	// 4. merge
	known := loadKnown()
	var execs, states, trans, distinct, leftover int64
	exhaustive := true
	outcomes := map[string]int64{}
	var samples []any
	var notes, stopped []string
	var units []map[string]any
	caps := map[string]int64{}
	type fkey struct{ fp string }
	found := map[string]*Finding{}
	for _, r := range results {
		execs += r.Execs
		states += r.States
		trans += r.Transitions
		distinct += r.Distinct
		leftover += r.Leftover
		exhaustive = exhaustive && r.Exhaustive
		for k, v := range r.Outcomes {
			outcomes[k] += v
		}
		for k, v := range r.CapsHit {
			caps[k] += v
		}
		for _, s := range r.Samples {
			if len(samples) < 24 {
				samples = append(samples, map[string]any{"unit": r.Unit, "case": s})
			}
		}
		for _, n := range r.Notes {
			notes = append(notes, r.Unit+": "+n)
		}
		for _, s := range r.Stopped {
			stopped = append(stopped, r.Unit+": "+s)
		}
		for _, e := range r.Internal {
			internal = append(internal, r.Unit+": "+e)
		}
		units = append(units, map[string]any{"unit": r.Unit, "execs": r.Execs, "states": r.States, "transitions": r.Transitions,
			"distinct_cases": r.Distinct, "bound": r.Bound, "bound_completed": r.BoundCompleted, "exhaustive": r.Exhaustive, "wall_s": r.WallS, "outcome_classes": len(r.Outcomes)})
		for _, f := range r.Findings {
			if old, ok := found[f.Fingerprint]; ok {
				old.Count += f.Count
				continue
			}
			found[f.Fingerprint] = f
		}
	}
	fps := make([]string, 0, len(found))
	for k := range found {
		fps = append(fps, k)
	}
	sort.Strings(fps)
	violations := 0
	var knownSeen []string
	os.MkdirAll(filepath.Join(verif, "replays"), 0o755)
	for _, fp := range fps {
		f := found[fp]
		if k := matchKnown(known, prop, fp, f.Cost); k != nil {
			fmt.Printf("KNOWN-FINDING: property=%s %s — %s\n", prop, fp, k.What)
			knownSeen = append(knownSeen, fp)
			continue
		}
		violations++
		h := sha1.Sum([]byte(prop + "|" + fp))
		path := filepath.Join(verif, "replays", fmt.Sprintf("%s-%x.json", prop, h[:5]))
		b, _ := json.MarshalIndent(f, "", " ")
		os.WriteFile(path, b, 0o644)
		msg := ""
		if len(f.Failures) > 0 {
			msg = f.Failures[0]
		}
		fmt.Printf("VIOLATION property=%s replay=%s\n  fingerprint: %s\n  unit: %s scenario: %s (seen in %d executions)\n  %s\n", prop, path, fp, f.Unit, f.Scenario, f.Count, firstLine(msg))
	}
	for i, s := range stalls {
		violations++
		path := filepath.Join(verif, "replays", fmt.Sprintf("%s-stall-%d.txt", prop, i))
		os.WriteFile(path, []byte(s+"\n"), 0o644)
		fmt.Printf("VIOLATION property=%s replay=%s\n  %s (a scheduled thread never reached a scheduling point: hang)\n", prop, path, s)
	}
	wall := time.Since(start).Seconds()
	okKeys := sortedKeys(outcomes)
	if len(okKeys) > 40 {
		okKeys = okKeys[:40]
	}
	topOutcomes := map[string]int64{}
	for _, k := range okKeys {
		topOutcomes[k] = outcomes[k]
	}
	if len(samples) == 0 {
		samples = append(samples, "no samples recorded")
	}
	dn := distinct
	if dn == 0 {
		dn = int64(len(outcomes))
	}
	ev := map[string]any{
		"property_id": prop,
		"tier":        tier,
		"seed":        seed,
		"level":       "model_checking",
		"wall_s":      wall,
		"violations":  violations,
		"coverage": map[string]any{
			"states":                        max64(states, 1),
			"transitions":                   max64(trans, 1),
			"traces_validated_against_impl": execs,
			"evaluations":                   execs,
			"distinct_nontrivial":           dn,
			"rule": "every execution runs the real (instrumented) implementation; states = scheduling/environment decision states visited in the search tree (choice points with >1 option), transitions = scheduled steps executed, evaluations = complete executions or enumerated cases; distinct_nontrivial = distinct enumerated scenario instances (operation sequences / inputs / racing pairs) as counted per unit, or distinct observed outcome classes when a unit does not count cases",
			"samples":                 samples,
			"exhaustive":              exhaustive && len(stalls) == 0 && len(internal) == 0,
			"distinct_outcomes":       len(outcomes),
			"outcomes_sample":         topOutcomes,
			"units":                   units,
			"caps_hit":                caps,
			"stopped_early":           stopped,
			"notes":                   notes,
			"known_findings_seen":     knownSeen,
			"leftover_goroutines":     leftover,
			"instrument_and_build_s":  buildS,
			"workers":                 par,
			"explanation":             "stateless model checking of the implementation under a controlled scheduler (testing/synctest bubble + shimmed sync/atomic/time) and bounded exhaustive enumeration against reference models; see DESIGN.md",
		},
		"assumptions": append(raceAssumption(), []string{
			"sequential consistency (no weak-memory behaviours); unsynchronised shared accesses are outside the scheduler's view",
			"third-party dependencies (gorilla/websocket, parser, compression libraries) run atomically inside the calling thread",
			"bounds as stated per unit (preemption/deviation bound, alphabet, depth, horizon)",
		}...),
	}
	os.MkdirAll(filepath.Join(verif, "evidence"), 0o755)
	b, _ := json.MarshalIndent(ev, "", " ")
	os.WriteFile(filepath.Join(verif, "evidence", prop+".json"), b, 0o644)
	fmt.Printf("vcheck %s %s: units=%d executions=%d states=%d transitions=%d outcomes=%d exhaustive=%v violations=%d known=%d wall=%.1fs (build %.1fs)\n",
		prop, tier, len(results), execs, states, trans, len(outcomes), exhaustive, violations, len(knownSeen), wall, buildS)
	if len(internal) > 0 {
		for _, e := range internal {
			fmt.Printf("INTERNAL-ERROR %s\n", e)
		}
		if violations == 0 {
			cleanupAndExit(2)
		}
	}
	if violations > 0 {
		cleanupAndExit(1)
	}
	cleanupAndExit(0)
}

func firstLine(s string) string {
	if i := strings.IndexByte(s, '\n'); i >= 0 {
		return s[:i]
	}
	return s
}

func max64(a, b int64) int64 {
	if a > b {
		return a
	}
	return b
}

func sortedKeys(m map[string]int64) []string {
	ks := make([]string, 0, len(m))
	for k := range m {
		ks = append(ks, k)
	}
	sort.Strings(ks)
	return ks
}

func loadKnown() []Known {
	b, err := os.ReadFile(filepath.Join(verif, "known_findings.json"))
	if err != nil {
		return nil
	}
	var k []Known
	if err := json.Unmarshal(b, &k); err != nil {
		fmt.Printf("INTERNAL-ERROR known_findings.json: %v\n", err)
		os.Exit(2)
	}
	return k
}

func matchKnown(ks []Known, prop, fp string, cost int) *Known {
	for i := range ks {
		if ks[i].Status != "known" || ks[i].Property != prop || cost < ks[i].MinCost {
			continue
		}
		if ks[i].FingerprintPattern != "" {
			if re, err := regexp.Compile("^(?:" + ks[i].FingerprintPattern + ")$"); err == nil && re.MatchString(fp) {
				return &ks[i]
			}
			continue
		}
		if ks[i].Fingerprint == fp {
			return &ks[i]
		}
	}
	return nil
}


// raceAssumption reports the last free-running race-detector pass (tools/racepass.sh), if there is one.
func raceAssumption() []string {
	b, err := os.ReadFile(filepath.Join(verif, "race_report.json"))
	if err != nil {
		return []string{"no free-running race-detector pass recorded (tools/racepass.sh)"}
	}
	var r struct {
		Head  string   `json:"repo_head"`
		N     int      `json:"races_reported"`
		Sites []string `json:"sites"`
	}
	if json.Unmarshal(b, &r) != nil {
		return nil
	}
	s := fmt.Sprintf("free-running -race pass of the session scenarios (auxiliary, tools/racepass.sh, at /repo %s): %d data race report(s)", r.Head, r.N)
	if r.N > 0 {
		s += "; unsynchronised accesses at " + strings.Join(r.Sites, "; ")
	}
	return []string{s}
}
