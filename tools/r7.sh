#!/bin/bash
# r4.sh <prop> <A|B> <new-id> : confirm a round-7 change delivered in /tmp/r7/out/<prop>/<A|B> and run the quick check on it (worktree sweep)
PROP=$1; X=$2; ID=$3; SRC=/tmp/r7/out/$PROP/$X
[ -f $SRC/patch.diff ] && [ -f $SRC/demo_test.go ] || { echo "$ID: incomplete delivery in $SRC"; exit 2; }
cd /verif
out=$(tools/confirm_mutant.sh $ID $SRC 2>&1); echo "$out" | tail -3
echo "$out" | grep -q "NOT CONFIRMED" && exit 3
echo "$out" | grep -q "CONFIRMED$" || exit 3
res=$(tools/wtsweep.sh $ID 2>&1); echo "$res"
echo "$ID $(echo "$res" | grep -oE "exit=[0-9]+" | head -1) first-run" >> seeded/ROUND7_FIRST.txt
