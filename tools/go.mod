module veriftools

go 1.26
