#!/bin/bash
# sweep_some.sh <id>... : like sweep_mutants.sh for the given ids; appends to seeded/RESULTS.txt
cd /verif
for id in "$@"; do
  d=seeded/$id; prop=${id%%-*}
  [ -f $d/patch.diff ] || { echo "$id $prop NOPATCH" >> seeded/RESULTS.txt; continue; }
  out=$(tools/trymutant.sh /verif/$d/patch.diff $prop 2>&1)
  if echo "$out" | grep -q "PATCH DOES NOT APPLY"; then echo "$id $prop NOAPPLY" >> seeded/RESULTS.txt; continue; fi
  code=$(echo "$out" | grep -oE "exit=[0-9]+" | head -1)
  fp=$(echo "$out" | grep -E "^  [a-z-]+\[" | grep -v KNOWN | head -1 | cut -c1-220)
  sed -i "/^$id /d" seeded/RESULTS.txt
  echo "$id $prop $code | $fp" >> seeded/RESULTS.txt
done
