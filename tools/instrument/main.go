// instrument rewrites the non-test Go files of selected /repo packages so that
// every synchronisation operation goes through the verifrt shims, and writes
// the copies plus a `go build -overlay` file into a scratch directory. /repo is
// only read. All rewrites are syntactic (no type information), so they apply to
// whatever the working tree currently contains.
package main

import (
	"bytes"
	"encoding/json"
	"flag"
	"fmt"
	"go/ast"
	"go/format"
	"go/parser"
	"go/token"
	"os"
	"path/filepath"
	"reflect"
	"strconv"
	"strings"
)

var shimImports = map[string]string{
	"sync":        "verifrt/vsync",
	"sync/atomic": "verifrt/vatomic",
	"time":        "verifrt/vtime",
}

var defaultNames = map[string]string{"sync": "sync", "sync/atomic": "atomic", "time": "time"}

type rewriter struct {
	usedSched bool
	tickOnly  bool
	tmp       int
}

func sel(pkg, name string) ast.Expr {
	return &ast.SelectorExpr{X: ast.NewIdent(pkg), Sel: ast.NewIdent(name)}
}

func (r *rewriter) call(name string, args ...ast.Expr) *ast.CallExpr {
	r.usedSched = true
	return &ast.CallExpr{Fun: sel("vsched", name), Args: args}
}

func unparen(e ast.Expr) ast.Expr {
	for {
		p, ok := e.(*ast.ParenExpr)
		if !ok {
			return e
		}
		e = p.X
	}
}

func isRecv(e ast.Expr) (*ast.UnaryExpr, bool) {
	u, ok := unparen(e).(*ast.UnaryExpr)
	if ok && u.Op == token.ARROW {
		return u, true
	}
	return nil, false
}

// convertibleSelect: every case is a value-less receive or default.
func convertibleSelect(s *ast.SelectStmt) bool {
	for _, c := range s.Body.List {
		cc := c.(*ast.CommClause)
		if cc.Comm == nil {
			continue
		}
		es, ok := cc.Comm.(*ast.ExprStmt)
		if !ok {
			return false
		}
		if _, ok := isRecv(es.X); !ok {
			return false
		}
	}
	return true
}

func (r *rewriter) stmt(s ast.Stmt) ast.Stmt {
	switch s := s.(type) {
	case *ast.GoStmt:
		if r.tickOnly {
			break
		}
		r.walk(reflect.ValueOf(s.Call))
		call := s.Call
		var pre []ast.Stmt
		if _, lit := call.Fun.(*ast.FuncLit); !lit || len(call.Args) > 0 {
			hoist := func(e ast.Expr) ast.Expr {
				r.tmp++
				id := ast.NewIdent("_vg" + strconv.Itoa(r.tmp))
				pre = append(pre, &ast.AssignStmt{Lhs: []ast.Expr{id}, Tok: token.DEFINE, Rhs: []ast.Expr{e}})
				return ast.NewIdent(id.Name)
			}
			if !lit {
				call.Fun = hoist(call.Fun)
			}
			for i, a := range call.Args {
				call.Args[i] = hoist(a)
			}
		}
		var fn ast.Expr
		if lit, ok := call.Fun.(*ast.FuncLit); ok && len(call.Args) == 0 && lit.Type.Results == nil {
			fn = lit
		} else {
			fn = &ast.FuncLit{Type: &ast.FuncType{Params: &ast.FieldList{}}, Body: &ast.BlockStmt{List: []ast.Stmt{&ast.ExprStmt{X: call}}}}
		}
		pre = append(pre, &ast.ExprStmt{X: r.call("Go", fn)})
		return &ast.BlockStmt{List: pre}
	case *ast.SendStmt:
		if r.tickOnly {
			break
		}
		r.walk(reflect.ValueOf(s))
		return &ast.ExprStmt{X: r.call("Send", s.Chan, s.Value)}
	case *ast.SelectStmt:
		if r.tickOnly {
			break
		}
		if !convertibleSelect(s) {
			for _, c := range s.Body.List {
				cc := c.(*ast.CommClause)
				r.list(&cc.Body)
			}
			return &ast.BlockStmt{List: []ast.Stmt{&ast.ExprStmt{X: r.call("PointChan")}, s}}
		}
		args := []ast.Expr{nil}
		hasDefault := false
		sw := &ast.SwitchStmt{Body: &ast.BlockStmt{}}
		idx := 0
		for _, c := range s.Body.List {
			cc := c.(*ast.CommClause)
			r.list(&cc.Body)
			if cc.Comm == nil {
				hasDefault = true
				sw.Body.List = append(sw.Body.List, &ast.CaseClause{Body: cc.Body})
				continue
			}
			u, _ := isRecv(cc.Comm.(*ast.ExprStmt).X)
			r.walk(reflect.ValueOf(&u.X).Elem())
			args = append(args, u.X)
			sw.Body.List = append(sw.Body.List, &ast.CaseClause{List: []ast.Expr{&ast.BasicLit{Kind: token.INT, Value: strconv.Itoa(idx)}}, Body: cc.Body})
			idx++
		}
		args[0] = ast.NewIdent(strconv.FormatBool(hasDefault))
		sw.Tag = r.call("SelectRecv", args...)
		return sw
	case *ast.AssignStmt:
		if r.tickOnly {
			break
		}
		if len(s.Lhs) == 2 && len(s.Rhs) == 1 {
			if u, ok := isRecv(s.Rhs[0]); ok {
				r.walk(reflect.ValueOf(&u.X).Elem())
				s.Rhs[0] = r.call("Recv2", u.X)
				return s
			}
		}
	case *ast.ForStmt:
		r.walk(reflect.ValueOf(s))
		s.Body.List = append([]ast.Stmt{&ast.ExprStmt{X: r.call("Tick")}}, s.Body.List...)
		return s
	case *ast.RangeStmt:
		r.walk(reflect.ValueOf(s))
		s.Body.List = append([]ast.Stmt{&ast.ExprStmt{X: r.call("Tick")}}, s.Body.List...)
		return s
	}
	r.walk(reflect.ValueOf(s))
	return s
}

func (r *rewriter) list(l *[]ast.Stmt) {
	for i, s := range *l {
		(*l)[i] = r.stmt(s)
	}
}

func (r *rewriter) expr(e ast.Expr) ast.Expr {
	if r.tickOnly {
		r.walk(reflect.ValueOf(e))
		return e
	}
	switch e := e.(type) {
	case *ast.UnaryExpr:
		if e.Op == token.ARROW {
			r.walk(reflect.ValueOf(e))
			return r.call("Recv", e.X)
		}
	case *ast.CallExpr:
		if id, ok := e.Fun.(*ast.Ident); ok && id.Name == "close" && len(e.Args) == 1 {
			r.walk(reflect.ValueOf(e))
			return r.call("Close", e.Args[0])
		}
	}
	r.walk(reflect.ValueOf(e))
	return e
}

var (
	exprT = reflect.TypeOf((*ast.Expr)(nil)).Elem()
	stmtT = reflect.TypeOf((*ast.Stmt)(nil)).Elem()
	nodeT = reflect.TypeOf((*ast.Node)(nil)).Elem()
)

// walk visits the children of the AST node held in v, replacing expressions and
// statements through expr/stmt.
func (r *rewriter) walk(v reflect.Value) {
	if !v.IsValid() {
		return
	}
	switch v.Kind() {
	case reflect.Interface:
		if v.IsNil() {
			return
		}
		r.walk(v.Elem())
	case reflect.Ptr:
		if v.IsNil() {
			return
		}
		if _, ok := v.Interface().(*ast.Object); ok {
			return
		}
		if _, ok := v.Interface().(*ast.Scope); ok {
			return
		}
		r.fields(v.Elem())
	}
}

func (r *rewriter) fields(s reflect.Value) {
	if s.Kind() != reflect.Struct {
		return
	}
	for i := 0; i < s.NumField(); i++ {
		f := s.Field(i)
		if !f.CanSet() {
			continue
		}
		switch {
		case f.Type() == exprT:
			if !f.IsNil() {
				f.Set(reflect.ValueOf(r.expr(f.Interface().(ast.Expr))))
			}
		case f.Type() == stmtT:
			if !f.IsNil() {
				f.Set(reflect.ValueOf(r.stmt(f.Interface().(ast.Stmt))))
			}
		case f.Kind() == reflect.Slice:
			for j := 0; j < f.Len(); j++ {
				e := f.Index(j)
				switch {
				case e.Type() == exprT:
					if !e.IsNil() {
						e.Set(reflect.ValueOf(r.expr(e.Interface().(ast.Expr))))
					}
				case e.Type() == stmtT:
					if !e.IsNil() {
						e.Set(reflect.ValueOf(r.stmt(e.Interface().(ast.Stmt))))
					}
				default:
					r.walk(e)
				}
			}
		case f.Kind() == reflect.Ptr || f.Kind() == reflect.Interface:
			if f.Type().Implements(nodeT) || f.Kind() == reflect.Ptr {
				r.walk(f)
			}
		}
	}
}

func processFile(fset *token.FileSet, src string, tickOnly bool) ([]byte, error) {
	f, err := parser.ParseFile(fset, src, nil, parser.ParseComments|parser.SkipObjectResolution)
	if err != nil {
		return nil, err
	}
	r := &rewriter{tickOnly: tickOnly}
	if !tickOnly {
		for _, imp := range f.Imports {
			p, _ := strconv.Unquote(imp.Path.Value)
			if np, ok := shimImports[p]; ok {
				if imp.Name == nil {
					imp.Name = ast.NewIdent(defaultNames[p])
				}
				imp.Path.Value = strconv.Quote(np)
			}
		}
	}
	for _, d := range f.Decls {
		r.walk(reflect.ValueOf(d))
	}
	var buf bytes.Buffer
	// Comments are dropped on purpose: positions of rewritten nodes would make
	// the printer misplace them (build constraints are re-emitted below).
	var constraint string
	for _, cg := range f.Comments {
		if cg.Pos() < f.Package {
			for _, c := range cg.List {
				if strings.HasPrefix(c.Text, "//go:build") {
					constraint = c.Text
				}
			}
		}
	}
	f.Comments = nil
	f.Doc = nil
	stripDocs(f)
	if err := format.Node(&buf, fset, f); err != nil {
		return nil, err
	}
	out := buf.Bytes()
	if r.usedSched {
		// add the import right after the package clause
		s := string(out)
		i := strings.Index(s, "\n")
		pk := strings.Index(s, "package ")
		j := pk + strings.Index(s[pk:], "\n")
		_ = i
		s = s[:j+1] + "\nimport vsched \"verifrt/vsched\"\n" + s[j+1:]
		out = []byte(s)
	}
	if constraint != "" {
		out = append([]byte(constraint+"\n\n"), out...)
	}
	return format.Source(out)
}

func stripDocs(f *ast.File) {
	ast.Inspect(f, func(n ast.Node) bool {
		switch n := n.(type) {
		case *ast.FuncDecl:
			// keep //go: directives (none expected), drop the rest
			n.Doc = nil
		case *ast.GenDecl:
			n.Doc = nil
		case *ast.TypeSpec:
			n.Doc, n.Comment = nil, nil
		case *ast.ValueSpec:
			n.Doc, n.Comment = nil, nil
		case *ast.Field:
			n.Doc, n.Comment = nil, nil
		case *ast.ImportSpec:
			n.Doc, n.Comment = nil, nil
		}
		return true
	})
}

func main() {
	repo := flag.String("repo", "/repo", "repository root")
	out := flag.String("out", "", "scratch output directory")
	pkgs := flag.String("pkgs", "engine,transports,types,utils,events,webtransport", "comma-separated package directories under repo")
	tick := flag.String("tick", "", "comma-separated absolute directories instrumented with Tick() only (dependencies)")
	flag.Parse()
	if *out == "" {
		fmt.Fprintln(os.Stderr, "instrument: -out required")
		os.Exit(2)
	}
	overlay := map[string]string{}
	fset := token.NewFileSet()
	n := 0
	do := func(dir, outSub string, tickOnly bool) {
		ents, err := os.ReadDir(dir)
		if err != nil {
			fmt.Fprintln(os.Stderr, "instrument:", err)
			os.Exit(2)
		}
		for _, e := range ents {
			name := e.Name()
			if e.IsDir() || !strings.HasSuffix(name, ".go") || strings.HasSuffix(name, "_test.go") {
				continue
			}
			src := filepath.Join(dir, name)
			b, err := processFile(fset, src, tickOnly)
			if err != nil {
				fmt.Fprintf(os.Stderr, "instrument: %s: %v\n", src, err)
				os.Exit(2)
			}
			dst := filepath.Join(*out, outSub, name)
			os.MkdirAll(filepath.Dir(dst), 0o755)
			if err := os.WriteFile(dst, b, 0o644); err != nil {
				fmt.Fprintln(os.Stderr, "instrument:", err)
				os.Exit(2)
			}
			overlay[src] = dst
			n++
		}
	}
	for _, p := range strings.Split(*pkgs, ",") {
		if p = strings.TrimSpace(p); p != "" {
			do(filepath.Join(*repo, p), filepath.Join("repo", p), false)
		}
	}
	for i, d := range strings.Split(*tick, ",") {
		if d = strings.TrimSpace(d); d != "" {
			do(d, filepath.Join("dep"+strconv.Itoa(i)), true)
		}
	}
	b, _ := json.MarshalIndent(map[string]any{"Replace": overlay}, "", " ")
	if err := os.WriteFile(filepath.Join(*out, "overlay.json"), b, 0o644); err != nil {
		fmt.Fprintln(os.Stderr, "instrument:", err)
		os.Exit(2)
	}
	fmt.Printf("instrument: %d files -> %s\n", n, *out)
}
