#!/bin/bash
# trymutant.sh <patch.diff> <property>... : applies the patch to /repo, runs the quick checks, undoes it.
P=$1; shift
cd /repo || exit 2
if ! git apply --check "$P" 2>/dev/null; then
  if ! git apply --3way --check "$P" 2>/dev/null; then echo "PATCH DOES NOT APPLY: $P"; exit 3; fi
fi
git apply "$P" 2>/dev/null || git apply --3way "$P" || { echo "apply failed"; exit 3; }
trap 'git -C /repo checkout -- . ; git -C /repo reset -q' EXIT
for prop in "$@"; do
  out=$(cd /verif && ./check.sh $prop quick 2>&1)
  code=$?
  echo "== $prop exit=$code"
  echo "$out" | grep -E "^VIOLATION|^  [a-z-]+\[|^INTERNAL|^vcheck" | cut -c1-260 | head -8
done
