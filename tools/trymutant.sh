#!/bin/bash
# trymutant.sh <patch.diff> <property>... : applies the patch to /repo, runs the quick checks, undoes it.
P=$1; shift
cd /repo || exit 2
if [ -n "$(git status --porcelain)" ]; then echo "REPO NOT CLEAN"; exit 2; fi
if ! git apply --check "$P" 2>/dev/null; then echo "PATCH DOES NOT APPLY: $P"; exit 3; fi
git apply "$P" || { echo "apply failed"; git checkout HEAD -- .; exit 3; }
trap 'git -C /repo checkout HEAD -- . ; git -C /repo reset -q' EXIT
TIER=${TIER:-quick}
for prop in "$@"; do
  out=$(cd /verif && ./check.sh $prop $TIER 2>&1)
  code=$?
  echo "== $prop exit=$code"
  echo "$out" | grep -E "^VIOLATION|^  [a-z-]+\[|^INTERNAL|^vcheck" | cut -c1-260 | head -8
done
