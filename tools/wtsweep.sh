#!/bin/bash
# wtsweep.sh [-t tier] [-p prop] <seeded-id>... : runs the check of each seeded change's property against a scratch
# worktree of /repo HEAD with the change applied, from a scratch copy of /verif's working tree (so /repo and
# /verif stay free, and evidence/replays of these runs never land in /verif). One line per id is (re)written
# to seeded/RESULTS.txt. Equivalent to trymutant.sh, which applies the change to /repo itself.
TIER=quick; PROPS=""
while getopts "t:p:" o; do case $o in t) TIER=$OPTARG;; p) PROPS=$OPTARG;; esac; done; shift $((OPTIND-1))
for id in "$@"; do
  d=/verif/seeded/$id; prop=${PROPS:-${id%%-*}}
  [ -f $d/patch.diff ] || { echo "$id NOPATCH"; continue; }
  WT=/tmp/sw-$id; VC=/tmp/sv-$id
  rm -rf $WT $VC; git -C /repo worktree prune
  git -C /repo worktree add -q --detach $WT HEAD || { echo "$id worktree failed"; continue; }
  if ! git -C $WT apply $d/patch.diff 2>/dev/null; then
    echo "$id $prop NOAPPLY"; sed -i "/^$id /d" /verif/seeded/RESULTS.txt; echo "$id $prop NOAPPLY" >> /verif/seeded/RESULTS.txt
    git -C /repo worktree remove --force $WT; continue
  fi
  mkdir -p $VC; rsync -a --exclude .git --exclude replays --exclude evidence /verif/ $VC/
  for p in $prop; do
    out=$(cd $VC && VERIF_REPO=$WT ./check.sh $p $TIER 2>&1); code=$?
    fp=$(echo "$out" | grep -E "^  [a-z0-9-]+\[" | grep -v KNOWN | head -1 | cut -c1-220)
    echo "$id $p exit=$code | $fp"
    echo "$out" | grep -E "^INTERNAL|^vcheck" | cut -c1-200
    if [ "$p" = "${id%%-*}" ] && [ $TIER = quick ]; then
      sed -i "/^$id /d" /verif/seeded/RESULTS.txt; echo "$id $p exit=$code | $fp" >> /verif/seeded/RESULTS.txt
    fi
  done
  git -C /repo worktree remove --force $WT; rm -rf $WT $VC
done
