#!/bin/bash
# wtrun.sh <seeded-id> <check.sh args...> : one check run (from /verif itself, evidence redirected to a scratch copy) against a worktree with the change applied
id=$1; shift
WT=/tmp/sw-$id; VC=/tmp/sv-$id
rm -rf $WT $VC; git -C /repo worktree prune
git -C /repo worktree add -q --detach $WT HEAD || exit 2
git -C $WT apply /verif/seeded/$id/patch.diff || { git -C /repo worktree remove --force $WT; exit 3; }
mkdir -p $VC; rsync -a --exclude .git --exclude replays --exclude evidence /verif/ $VC/
(cd $VC && VERIF_REPO=$WT ./check.sh "$@")
code=$?
[ -n "$KEEP" ] || { git -C /repo worktree remove --force $WT; rm -rf $WT $VC; }
exit $code
